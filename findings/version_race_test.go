// dir: loader
// Demonstration for "fix: loader: the list of files already warned about ...": run with -race.
package loader_test

import (
	"context"
	"sync"
	"testing"

	"github.com/compose-spec/compose-go/v2/loader"
	"github.com/compose-spec/compose-go/v2/types"
)

func TestVersionWarningRace(t *testing.T) {
	var wg sync.WaitGroup
	for i := 0; i < 8; i++ {
		wg.Add(1)
		go func() {
			defer wg.Done()
			for j := 0; j < 20; j++ {
				_, _ = loader.LoadWithContext(context.Background(), types.ConfigDetails{WorkingDir: "/tmp/x",
					ConfigFiles: []types.ConfigFile{{Filename: "compose.yaml", Content: []byte("version: '3'\nservices: {a: {image: x}}")}}, Environment: map[string]string{}},
					func(o *loader.Options) { o.SetProjectName("demo", true); o.SkipResolveEnvironment = true })
			}
		}()
	}
	wg.Wait()
}
