package main

// providers.go — property-specific obligations that are not plain function contracts
// (table lemmas K5, structural frame/ownership K3, order-independence K4, ghost lemmas K6).

import (
	"fmt"
	"go/types"
	"reflect"
	"sort"
	"strings"
)

func propertyProviders(e *Engine, P string, tier string) []*Job {
	var jobs []*Job
	jobs = append(jobs, tableJobs(e, P)...)
	if P == "C08" {
		jobs = append(jobs, castJoinJobs(e)...)
	}
	jobs = append(jobs, tagRuleJobs(e, P)...)
	if P == "C19" || P == "C02" {
		jobs = append(jobs, globalFrameJobs(e, P)...)
	}
	if P == "C02" {
		jobs = append(jobs, globalMapRangeJobs(e, P)...)
	}
	return jobs
}

func structJob(name, kind string, ok bool, detail, pos string) *Job {
	st := "proved"
	if !ok {
		st = "failed"
	}
	return &Job{Struct: true, O: &Obligation{Name: name, Kind: kind, Status: st, Detail: detail, Pos: pos, Solver: "structural"}}
}

// tableJobs: K5 — the rows of a rule table, extracted from the SSA of the initialisers on this run,
// equal the rows the contract file demands; the patterns of one table are pairwise exclusive.
func tableJobs(e *Engine, P string) []*Job {
	var jobs []*Job
	for _, ts := range e.Specs.Tables {
		if !hasProp(ts.Props, P) {
			continue
		}
		var ti *TableInfo
		for _, t := range e.tables {
			if t.Global.Pkg.Pkg.Name() == ts.Pkg && t.Global.Name() == ts.Name {
				ti = t
			}
		}
		base := fmt.Sprintf("%s.table(%s)", ts.Pkg, ts.Name)
		if ti == nil {
			jobs = append(jobs, structJob(base+"/extract", "table", false, "table not found / not extractable from init", ts.Where))
			continue
		}
		jobs = append(jobs, structJob(base+"/closed", "table", !ti.Open && ti.Frozen, "every update has a constant key, in straight-line init code, and no function outside init writes a map of this type", ts.Where))
		got := map[string]string{}
		for _, r := range ti.Rows {
			got[r.Key] = strings.TrimPrefix(r.Desc, ts.Pkg+".")
		}
		want := map[string]string{}
		for _, r := range ts.Rows {
			want[r[0]] = r[1]
			g, ok := got[r[0]]
			jobs = append(jobs, structJob(fmt.Sprintf("%s/row[%s]", base, r[0]), "table", ok && g == r[1], fmt.Sprintf("want %s, extracted %q", r[1], g), ts.Where))
		}
		if ts.Exact {
			var extra []string
			for k := range got {
				if _, ok := want[k]; !ok {
					extra = append(extra, k)
				}
			}
			sort.Strings(extra)
			jobs = append(jobs, structJob(base+"/exact", "table", len(extra) == 0, "unexpected rows: "+strings.Join(extra, ", "), ts.Where))
		}
		// exclusivity lemma (SMT): no path matches two different patterns of the table
		var keys []string
		for _, r := range ti.Rows {
			keys = append(keys, r.Key)
		}
		sort.Strings(keys)
		jobs = append(jobs, exclusivityJob(base, keys, ts.Where))
	}
	return jobs
}

// exclusivityJob builds one SMT query: exists a path matched by two different patterns?
func exclusivityJob(base string, keys []string, where string) *Job {
	o := &Obligation{Name: base + "/patterns-pairwise-exclusive", Kind: "table-lemma", Pos: where, Detail: fmt.Sprintf("%d patterns, %d pairs", len(keys), len(keys)*(len(keys)-1)/2)}
	script := func() string {
		var b strings.Builder
		b.WriteString("(declare-sort Str 0)\n(declare-fun cnt () Int)\n(declare-fun part (Int) Str)\n")
		lits := map[string]string{}
		lit := func(s string) string {
			if n, ok := lits[s]; ok {
				return n
			}
			n := fmt.Sprintf("l%d", len(lits))
			lits[s] = n
			return n
		}
		match := func(pat string) string {
			parts := strings.Split(pat, ".")
			t := fmt.Sprintf("(and (= cnt %d)", len(parts))
			for i, p := range parts {
				if p == "*" {
					continue
				}
				t += fmt.Sprintf(" (= (part %d) %s)", i, lit(p))
			}
			return t + ")"
		}
		var pairs []string
		for i := 0; i < len(keys); i++ {
			for j := i + 1; j < len(keys); j++ {
				pairs = append(pairs, fmt.Sprintf("(and %s %s)", match(keys[i]), match(keys[j])))
			}
		}
		var names []string
		for _, n := range lits {
			names = append(names, n)
		}
		sort.Strings(names)
		for _, n := range names {
			fmt.Fprintf(&b, "(declare-const %s Str)\n", n)
		}
		if len(names) > 1 {
			b.WriteString("(assert (distinct " + strings.Join(names, " ") + "))\n")
		}
		if len(pairs) == 0 {
			b.WriteString("(assert false)\n")
		} else {
			b.WriteString("(assert (or " + strings.Join(pairs, "\n ") + "))\n")
		}
		b.WriteString("(check-sat)\n")
		return b.String()
	}
	return &Job{O: o, Script: script}
}

// tagRuleJobs: structural lemma for the `rendered` rules of the contract files — the named struct field carries no
// `omitempty` in its yaml and json tags (read from go/types on this run), so its zero value is always rendered.
func tagRuleJobs(e *Engine, P string) []*Job {
	var jobs []*Job
	for _, tr := range e.Specs.TagRules {
		if !hasProp(tr.Props, P) {
			continue
		}
		name := fmt.Sprintf("%s/rendered[%s.%s.%s]", P, tr.Pkg, tr.Type, tr.Field)
		var st *types.Struct
		for _, p := range e.Pkgs {
			if p.Name == tr.Pkg && p.Types != nil {
				if o := p.Types.Scope().Lookup(tr.Type); o != nil {
					st, _ = o.Type().Underlying().(*types.Struct)
				}
			}
		}
		if st == nil {
			jobs = append(jobs, structJob(name, "tagrule", false, "type not found: stale rule", tr.Where))
			continue
		}
		found := false
		for i := 0; i < st.NumFields(); i++ {
			if st.Field(i).Name() != tr.Field {
				continue
			}
			found = true
			tag := reflect.StructTag(st.Tag(i))
			y, j := tag.Get("yaml"), tag.Get("json")
			ok := !strings.Contains(y, "omitempty") && !strings.Contains(j, "omitempty") && !strings.HasPrefix(y, "-") && !strings.HasPrefix(j, "-")
			jobs = append(jobs, structJob(name, "tagrule", ok, fmt.Sprintf("yaml:%q json:%q; rule: %s", y, j, tr.Why), tr.Where))
		}
		if !found {
			jobs = append(jobs, structJob(name, "tagrule", false, "field not found: stale rule", tr.Where))
		}
	}
	return jobs
}
