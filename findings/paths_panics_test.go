// dir: loader
// Demonstration for "fix: paths: resolvers leave non-string ... values untouched": schema-valid inputs that
// panicked in paths.* on the pinned tree.
package loader_test

import (
	"context"
	"testing"

	"github.com/compose-spec/compose-go/v2/loader"
	"github.com/compose-spec/compose-go/v2/types"
)

func TestPathsPanics(t *testing.T) {
	cases := map[string]string{
		"driver_opts-device-number":       "services: {a: {image: x}}\nvolumes: {v: {driver: local, driver_opts: {o: bind, device: 123}}}",
		"additional_contexts-number":      "services: {a: {image: x, build: {context: ., additional_contexts: {foo: 3}}}}",
		"additional_contexts-null":        "services: {a: {image: x, build: {context: ., additional_contexts: {foo: }}}}",
	}
	for name, content := range cases {
		t.Run(name, func(t *testing.T) {
			defer func() {
				if r := recover(); r != nil {
					t.Fatalf("PANIC: %v", r)
				}
			}()
			_, _ = loader.LoadWithContext(context.Background(), types.ConfigDetails{WorkingDir: t.TempDir(),
				ConfigFiles: []types.ConfigFile{{Filename: "compose.yaml", Content: []byte(content)}}, Environment: map[string]string{}},
				func(o *loader.Options) { o.SetProjectName("demo", true); o.SkipResolveEnvironment = true })
		})
	}
}
