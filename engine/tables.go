package main

// tables.go — package-level rule tables (map[tree.Path]func...) written only by init:
// mechanical extraction of their rows from the SSA of the initialisers on every run (K5),
// facts at lookups/ranges, and call dispatch over the candidate functions.

import (
	"fmt"
	"go/constant"
	"go/token"
	"go/types"
	"sort"
	"strings"

	"golang.org/x/tools/go/ssa"
)

type TableRow struct {
	Key     string
	Val     ssa.Value
	Fn      *ssa.Function // candidate function (closure body for closures)
	Closure bool
	Desc    string
	Pos     token.Pos
}

type TableInfo struct {
	Name   string // heap name of the global
	Global *ssa.Global
	Rows   []TableRow // last assignment per key wins; order of first appearance
	Open   bool       // some key or update could not be resolved statically
	Frozen bool       // no function outside init writes a pre-existing map of this class
}

type Cand struct {
	Cond     string
	Fn       *ssa.Function
	Bindings []Val
	PreArgs  []Val // receiver of a bound method, passed before the call's own arguments
	Unknown  bool
}

func (e *Engine) isInitFn(fn *ssa.Function) bool {
	return fn.Name() == "init" && fn.Synthetic != "" || strings.HasPrefix(fn.Name(), "init#")
}

func (e *Engine) analyzeTables() {
	e.tables = map[string]*TableInfo{}
	e.frozen = map[string]bool{}
	// collect init functions per package in execution order
	for _, pkg := range e.SPkgs {
		if pkg == nil || !e.isRepoPkg(pkg) {
			continue
		}
		var inits []*ssa.Function
		if f := pkg.Func("init"); f != nil {
			inits = append(inits, f)
		}
		for i := 1; ; i++ {
			f := pkg.Func(fmt.Sprintf("init#%d", i))
			if f == nil {
				break
			}
			inits = append(inits, f)
		}
		type upd struct {
			key ssa.Value
			val ssa.Value
			pos token.Pos
		}
		perGlobal := map[*ssa.Global][]upd{}
		open := map[*ssa.Global]bool{}
		for _, fn := range inits {
			// which local values denote which global's map
			alias := map[ssa.Value]*ssa.Global{}
			for _, b := range fn.Blocks {
				for _, ins := range b.Instrs {
					switch x := ins.(type) {
					case *ssa.UnOp:
						if g, ok := x.X.(*ssa.Global); ok && x.Op == token.MUL {
							alias[x] = g
						}
					case *ssa.Store:
						if g, ok := x.Addr.(*ssa.Global); ok {
							if _, isMap := types.Unalias(g.Type().(*types.Pointer).Elem()).Underlying().(*types.Map); isMap {
								if mm, ok := x.Val.(*ssa.MakeMap); ok {
									alias[mm] = g
								} else {
									open[g] = true
								}
							}
						}
					}
				}
			}
			for _, b := range fn.Blocks {
				for _, ins := range b.Instrs {
					if mu, ok := ins.(*ssa.MapUpdate); ok {
						if g := alias[mu.Map]; g != nil {
							perGlobal[g] = append(perGlobal[g], upd{mu.Key, mu.Value, mu.Pos()})
							if len(fn.Blocks) > 1 && !(fn.Synthetic != "" && len(fn.Blocks) <= 3) {
								open[g] = true // conditional population
							}
						}
					}
				}
			}
		}
		for g, ups := range perGlobal {
			ti := &TableInfo{Name: e.globalHeap(g)[0], Global: g, Open: open[g]}
			idx := map[string]int{}
			for _, u := range ups {
				k, ok := u.key.(*ssa.Const)
				if !ok || k.Value == nil || k.Value.Kind() != constant.String {
					ti.Open = true
					continue
				}
				key := constant.StringVal(k.Value)
				row := TableRow{Key: key, Val: u.val, Pos: u.pos}
				row.Fn, row.Closure, row.Desc = e.rowFunc(u.val)
				if i, dup := idx[key]; dup {
					ti.Rows[i] = row
				} else {
					idx[key] = len(ti.Rows)
					ti.Rows = append(ti.Rows, row)
				}
			}
			e.tables[ti.Name] = ti
		}
	}
	// frozen: no non-init repo function writes an existing map of the class, and the global is init-only
	writers := map[string]bool{}
	for fn := range e.allFuncs {
		if !e.inRepo(fn) || len(fn.Blocks) == 0 || e.isInitFn(fn) {
			continue
		}
		for _, b := range fn.Blocks {
			for _, ins := range b.Instrs {
				ex, _ := e.instrMod(ins)
				if cl, ok := ins.(*ssa.Call); ok {
					if bi, ok := cl.Call.Value.(*ssa.Builtin); ok && (bi.Name() == "delete" || bi.Name() == "clear") {
						a, _ := e.callMod(fn, &cl.Call)
						ex = append(ex, a...)
					}
				}
				for _, n := range ex {
					writers[n] = true
				}
			}
		}
	}
	for _, ti := range e.tables {
		mn, dn, _, _, _ := e.Model.MapHeaps(ti.Global.Type().(*types.Pointer).Elem())
		gi := e.globals[ti.Name]
		if gi != nil && gi.constAfterInit && !writers[mn] && !writers[dn] {
			ti.Frozen = true
			e.frozen[mn] = true
			e.frozen[dn] = true
		}
	}
}

func (e *Engine) isRepoPkg(p *ssa.Package) bool {
	pp := p.Pkg.Path()
	return pp == e.ModPath || strings.HasPrefix(pp, e.ModPath+"/")
}

// rowFunc: the function a table value denotes
func (e *Engine) rowFunc(v ssa.Value) (*ssa.Function, bool, string) {
	switch x := v.(type) {
	case *ssa.Function:
		return x, false, fnKey(x)
	case *ssa.MakeClosure:
		f := x.Fn.(*ssa.Function)
		return f, true, fnKey(f)
	case *ssa.ChangeType:
		return e.rowFunc(x.X)
	case *ssa.Call:
		// a constructor returning a closure, e.g. mountIndexer("")
		if callee := x.Call.StaticCallee(); callee != nil && e.inRepo(callee) {
			var clo *ssa.Function
			okAll := true
			for _, b := range callee.Blocks {
				for _, ins := range b.Instrs {
					if r, ok := ins.(*ssa.Return); ok {
						if len(r.Results) != 1 {
							okAll = false
							continue
						}
						rv := r.Results[0]
						for {
							ct, ok := rv.(*ssa.ChangeType)
							if !ok {
								break
							}
							rv = ct.X
						}
						mc, ok := rv.(*ssa.MakeClosure)
						if !ok {
							okAll = false
							continue
						}
						f := mc.Fn.(*ssa.Function)
						if clo != nil && clo != f {
							okAll = false
						}
						clo = f
					}
				}
			}
			if okAll && clo != nil {
				var as []string
				for _, a := range x.Call.Args {
					if k, ok := a.(*ssa.Const); ok && k.Value != nil {
						as = append(as, k.Value.ExactString())
					} else {
						as = append(as, "?")
					}
				}
				return clo, true, fnKey(callee) + "(" + strings.Join(as, ",") + ")"
			}
		}
	}
	return nil, false, "?"
}

// tableOf: table info when v is a load of a frozen table global
func (c *FnCtx) tableOf(v Val) *TableInfo { return v.Table }

// tableLookupFacts: key/value/ok of a lookup or range step on a frozen table
func (c *FnCtx) tableFacts(ti *TableInfo, ok, k, v string, isRange bool) []Cand {
	if ti == nil || ti.Open || !ti.Frozen || c.isInitLike() {
		return nil
	}
	var disj []string
	byFn := map[*ssa.Function][]string{}
	var order []*ssa.Function
	unknown := []string{}
	for _, r := range ti.Rows {
		lit := c.strLit(r.Key)
		c.literalSplitFacts(lit, r.Key)
		eq := fmt.Sprintf("(= %s %s)", k, lit)
		disj = append(disj, eq)
		if !isRange {
			c.fact(fmt.Sprintf("(=> %s %s)", eq, ok))
		}
		if r.Fn != nil && !r.Closure {
			c.fact(fmt.Sprintf("(=> (and %s %s) (= %s %d))", ok, eq, v, c.E.fnID(r.Fn)))
		} else {
			c.fact(fmt.Sprintf("(=> (and %s %s) (not (= %s 0)))", ok, eq, v))
		}
		if r.Fn != nil {
			if _, seen := byFn[r.Fn]; !seen {
				order = append(order, r.Fn)
			}
			byFn[r.Fn] = append(byFn[r.Fn], eq)
		} else {
			unknown = append(unknown, eq)
		}
	}
	if len(disj) == 0 {
		c.fact(fmt.Sprintf("(not %s)", ok))
		return nil
	}
	c.fact(fmt.Sprintf("(=> %s (or %s false))", ok, strings.Join(disj, " ")))
	var cands []Cand
	for _, f := range order {
		cond := "(or " + strings.Join(byFn[f], " ") + " false)"
		cd := Cand{Cond: cond, Fn: f}
		if len(f.FreeVars) > 0 {
			// closure candidate: captured cells are unknown but non-nil
			for _, fv := range f.FreeVars {
				b := c.freshConst("capt", SInt)
				c.fact(fmt.Sprintf("(not (= %s 0))", b))
				cd.Bindings = append(cd.Bindings, Val{T: b, S: SInt, GT: fv.Type()})
			}
		}
		cands = append(cands, cd)
	}
	if len(unknown) > 0 {
		cands = append(cands, Cand{Cond: "(or " + strings.Join(unknown, " ") + " false)", Unknown: true})
	}
	return cands
}

func (c *FnCtx) isInitLike() bool {
	return c.E.isInitFn(c.F)
}

// dispatchCall: a call through a value with a known finite candidate set
func (c *FnCtx) dispatchCall(cands []Cand, args []Val, cc *ssa.CallCommon, resType types.Type, pos token.Pos) Val {
	c.note(fmt.Sprintf("table dispatch over %d candidate functions", len(cands)))
	base := copyState(c.st)
	savedReach := c.reach[c.curBlk]
	type br struct {
		cond string
		res  Val
		st   map[string]string
	}
	var brs []br
	for _, cd := range cands {
		c.st = copyState(base)
		g := c.nameBool(c.newName(c.pfx+"disp"), fmt.Sprintf("(and %s %s)", savedReach, cd.Cond))
		c.reach[c.curBlk] = g
		var r Val
		if cd.Unknown {
			c.havocAll("table row with unresolved function value")
			r = c.havocVal("dyn", resType)
		} else {
			as := args
			if len(cd.PreArgs) > 0 {
				as = append(append([]Val{}, cd.PreArgs...), args...)
			}
			r = c.staticCall(cd.Fn, cd.Bindings, as, cc, resType, pos)
		}
		brs = append(brs, br{cd.Cond, r, copyState(c.st)})
	}
	c.reach[c.curBlk] = savedReach
	// merge states
	names := map[string]bool{}
	for _, b := range brs {
		for n := range b.st {
			names[n] = true
		}
	}
	var ns []string
	for n := range names {
		ns = append(ns, n)
	}
	sort.Strings(ns)
	c.st = copyState(base)
	for _, n := range ns {
		term := c.heapIn(brs[len(brs)-1].st, n)
		same := true
		for i := len(brs) - 2; i >= 0; i-- {
			if c.heapIn(brs[i].st, n) != term {
				same = false
			}
		}
		if same {
			c.st[n] = term
			continue
		}
		for i := len(brs) - 2; i >= 0; i-- {
			term = fmt.Sprintf("(ite %s %s %s)", brs[i].cond, c.heapIn(brs[i].st, n), term)
		}
		c.setH(n, term)
	}
	// merge results
	mergeOne := func(get func(Val) Val, t types.Type) Val {
		s := c.M.SortOf(t)
		last := get(brs[len(brs)-1].res)
		term := orOpaque(c, last, s)
		for i := len(brs) - 2; i >= 0; i-- {
			term = fmt.Sprintf("(ite %s %s %s)", brs[i].cond, orOpaque(c, get(brs[i].res), s), term)
		}
		n := c.freshConst("dispres", s)
		c.fact(fmt.Sprintf("(= %s %s)", n, term))
		return Val{T: n, S: s, GT: t}
	}
	if tup, ok := resType.(*types.Tuple); ok {
		if tup.Len() == 0 {
			return Val{S: "Tuple"}
		}
		var out []Val
		for k := 0; k < tup.Len(); k++ {
			k := k
			out = append(out, mergeOne(func(v Val) Val {
				if k < len(v.Tup) {
					return v.Tup[k]
				}
				return Val{}
			}, tup.At(k).Type()))
		}
		return Val{S: "Tuple", Tup: out}
	}
	return mergeOne(func(v Val) Val { return v }, resType)
}

// tableOfValue: v was extracted from a lookup/range over a load of a rule-table global
func (e *Engine) tableOfValue(v ssa.Value) *TableInfo {
	if e.tables == nil {
		return nil
	}
	for i := 0; i < 6 && v != nil; i++ {
		switch x := v.(type) {
		case *ssa.Extract:
			v = x.Tuple
		case *ssa.Lookup:
			v = x.X
		case *ssa.Next:
			if r, ok := x.Iter.(*ssa.Range); ok {
				v = r.X
			} else {
				return nil
			}
		case *ssa.UnOp:
			if g, ok := x.X.(*ssa.Global); ok {
				return e.tables[e.globalHeap(g)[0]]
			}
			return nil
		default:
			return nil
		}
	}
	return nil
}

// ancestors: objects from which v was (transitively) loaded — the containers above v in an any-tree
func (c *FnCtx) ancestors(v ssa.Value) []Val {
	var out []Val
	seen := map[ssa.Value]bool{}
	for i := 0; i < 32 && v != nil && !seen[v]; i++ {
		seen[v] = true
		switch x := v.(type) {
		case *ssa.Extract:
			v = x.Tuple
		case *ssa.TypeAssert:
			v = x.X
		case *ssa.MakeInterface:
			v = x.X
		case *ssa.ChangeType:
			v = x.X
		case *ssa.ChangeInterface:
			v = x.X
		case *ssa.Lookup:
			out = append(out, c.v(x.X))
			v = x.X
		case *ssa.Next:
			r, ok := x.Iter.(*ssa.Range)
			if !ok {
				return out
			}
			out = append(out, c.v(r.X))
			v = r.X
		case *ssa.UnOp:
			ia, ok := x.X.(*ssa.IndexAddr)
			if !ok {
				return out
			}
			out = append(out, c.v(ia.X))
			v = ia.X
		default:
			return out
		}
	}
	return out
}

// tableDomainFacts: the domain of a frozen table is exactly its extracted rows (used where a contract
// mentions the table global)
func (c *FnCtx) tableDomainFacts(ti *TableInfo, m string, st map[string]string) {
	if ti.Open || !ti.Frozen || c.isInitLike() {
		return
	}
	key := "tabledom|" + ti.Name
	if c.ufs[key] {
		return
	}
	c.ufs[key] = true
	_, dn, ks, _, _ := c.M.MapHeaps(ti.Global.Type().(*types.Pointer).Elem())
	d := c.heapIn(st, dn)
	var eqs []string
	for _, r := range ti.Rows {
		lit := c.strLit(r.Key)
		c.literalSplitFacts(lit, r.Key)
		eqs = append(eqs, fmt.Sprintf("(= qk %s)", lit))
	}
	c.gfact(fmt.Sprintf("(not (= %s 0))", m))
	c.gfact(fmt.Sprintf("(forall ((qk %s)) (! (= (select (select %s %s) qk) (or %s false)) :pattern ((select (select %s %s) qk))))", ks, d, m, strings.Join(eqs, " "), d, m))
}
