package main

// providers.go — property-specific obligations that are not plain function contracts
// (table lemmas K5, structural frame/ownership K3, order-independence K4, ghost lemmas K6).

func propertyProviders(e *Engine, P string, tier string) []*Job {
	return nil
}
