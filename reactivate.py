#!/usr/bin/env python3
"""reactivate.py [--apply]: turn every clause that triage.py deactivated ("undischarged on the reference tree:
not claimed") back on, so that a following sweep + triage round decides again which of them discharge with
the current engine. Hand-written inactive clauses (ENGINE LIMIT / FINDING comments) are left alone."""
import re, sys, glob
apply = '--apply' in sys.argv
kw = re.compile(r'^//@\??\s*(requires|ensures|invariant|decreases|callsite|nopanic|assigns|pure|loop|func|spec|order-independent|trusted|table|row|exact|except)\b')
n = 0
for f in sorted(glob.glob('/repo/*/verif_contracts*.go')):
    lines = open(f).read().split('\n')
    i = 0
    while i < len(lines):
        l = lines[i]
        if l.startswith('//@?') and 'undischarged on the reference tree: not claimed' in l:
            lines[i] = '//@' + l[4:].replace('   // undischarged on the reference tree: not claimed', '')
            n += 1
            j = i + 1
            while j < len(lines) and lines[j].startswith('//@?') and not kw.match(lines[j]):
                lines[j] = '//@' + lines[j][4:]
                j += 1
        i += 1
    if apply:
        open(f, 'w').write('\n'.join(lines))
print("reactivated", n)
