package main

// loops.go — loop cut points: havoc, invariants (assume at header, check on entry and back edges),
// decreases, automatic counter invariants; requires/ensures glue.

import (
	"fmt"
	"go/ast"
	"go/token"
	"go/types"
	"os"
	"sort"
	"strings"

	"golang.org/x/tools/go/ssa"
)

func (c *FnCtx) computeLoopMods() {
	for _, l := range c.loops {
		for bi := range l.Blocks {
			b := c.F.Blocks[bi]
			for _, ins := range b.Instrs {
				ex, fr := c.E.instrMod(ins)
				// "fresh" relative to a loop means allocated inside the loop
				if root := c.E.writeRoot(ins); root != nil && len(fr) > 0 {
					if ri, ok := root.(ssa.Instruction); !ok || ri.Block() == nil || !l.Blocks[ri.Block().Index] {
						ex = append(ex, fr...)
						fr = nil
					}
				}
				var cc *ssa.CallCommon
				switch x := ins.(type) {
				case *ssa.Call:
					cc = &x.Call
				case *ssa.Go:
					cc = &x.Call
				case *ssa.Defer:
					cc = &x.Call
				}
				if cc != nil && c.Spec != nil && c.Spec.Pure && !cc.IsInvoke() && cc.StaticCallee() == nil {
					if _, isBuiltin := cc.Value.(*ssa.Builtin); !isBuiltin {
						cc = nil // function declared pure: its callbacks are assumed pure (stated in the contract)
					}
				}
				if cc != nil {
					a, b2 := c.E.callMod(c.F, cc)
					for _, n := range a {
						if strings.HasPrefix(n, "cb:") {
							n = "*" // a call through one of this function's own parameters: unknown here
						}
						ex = append(ex, n)
					}
					fr = append(fr, b2...)
				}
				for _, h := range ex {
					l.Mod[h] = true
				}
				// row-level precision: direct writes whose root is defined outside the loop
				if root := c.E.writeRoot(ins); root != nil && cc == nil {
					outside := true
					if ri, ok := root.(ssa.Instruction); ok && ri.Block() != nil && l.Blocks[ri.Block().Index] {
						outside = false
					}
					if _, isGlobal := root.(*ssa.Global); isGlobal {
						outside = false
					}
					for _, h := range ex {
						if outside && !strings.HasPrefix(h, "G|") {
							l.ModRows[h] = append(l.ModRows[h], root)
						} else {
							l.ModWhole[h] = true
						}
					}
				} else {
					for _, h := range ex {
						l.ModWhole[h] = true
					}
				}
				for _, h := range fr {
					l.ModFresh[h] = true
				}
			}
		}
		if c.Spec != nil {
			l.Spec = c.Spec.Loops[l.Ordinal]
		}
	}
}

// specEnv is the environment for evaluating a spec expression.
type specEnv struct {
	c      *FnCtx
	vars   map[string]Val
	st     map[string]string // current heap state
	old    map[string]string // entry heap state
	loop   *Loop
	seen   string // map-range ghost set term (if any)
	bound  map[string]Val
	result []Val
	fnspec *FuncSpec
	callee *ssa.Function // when evaluating a callee's contract at a call site
}

func (c *FnCtx) baseEnv() *specEnv {
	e := &specEnv{c: c, vars: map[string]Val{}, st: c.st, old: c.entry, bound: map[string]Val{}}
	for n, v := range c.params {
		e.vars[n] = v
	}
	return e
}

func (c *FnCtx) assumeRequires() {
	if c.Spec == nil {
		return
	}
	for _, cl := range c.Spec.Requires {
		env := c.baseEnv()
		env.st = c.entry
		t, err := env.evalBool(cl.Expr)
		if err != nil {
			c.E.specError(c.Name, cl, err)
			continue
		}
		c.gfact(t)
	}
}

// variables visible at a loop header by source name
func (c *FnCtx) loopNames(l *Loop, phiVal func(*ssa.Phi) Val) map[string]Val {
	names := map[string]Val{}
	for n, v := range c.params {
		names[n] = v
	}
	// source variables from DebugRefs in dominating blocks (later wins)
	for _, b := range c.order {
		if b == l.Header || !b.Dominates(l.Header) {
			continue
		}
		for _, ins := range b.Instrs {
			if d, ok := ins.(*ssa.DebugRef); ok {
				if id, ok := d.Expr.(*ast.Ident); ok {
					if v, ok := c.vals[d.X]; ok {
						if v.GT == nil {
							v.GT = d.X.Type()
						}
						if d.IsAddr {
							v = Val{T: v.T, S: v.S, Place: v.Place, Fn: nil, GT: d.X.Type()}
							names["&"+id.Name] = v
							continue
						}
						names[id.Name] = v
					} else if k, ok := d.X.(*ssa.Const); ok {
						if _, have := names[id.Name]; have {
							continue
						}
						names[id.Name] = c.constVal(k)
						if os.Getenv("GOVC_DEBUG") != "" {
							fmt.Fprintf(os.Stderr, "DEBUGREF const %s = %s at %v in b%d of %s hdr b%d\n", id.Name, k.String(), c.E.Fset.Position(d.Pos()), b.Index, c.Name, l.Header.Index)
						}
					} else if os.Getenv("GOVC_DEBUG") != "" {
						fmt.Fprintf(os.Stderr, "DEBUGREF unbound %s = %s in b%d of %s hdr b%d\n", id.Name, d.X.Name(), b.Index, c.Name, l.Header.Index)
					}
				}
			}
		}
	}
	// x/tools emits only a zero-constant DebugRef at some `x := T{}` definitions; recover the value
	// from the later uses of the same name when it is unique in the function and defined before the loop
	for name, vals := range c.debugUses() {
		if cur, have := names[name]; have && cur.T != "" && !isZeroConstTerm(cur.T) {
			continue
		}
		if len(vals) != 1 {
			continue
		}
		x := vals[0]
		ins, ok := x.(ssa.Instruction)
		if !ok || ins.Block() == nil || ins.Block() == l.Header || !ins.Block().Dominates(l.Header) {
			continue
		}
		if v, ok := c.vals[x]; ok {
			if v.GT == nil {
				v.GT = x.Type()
			}
			names[name] = v
		}
	}
	for _, ins := range l.Header.Instrs {
		if phi, ok := ins.(*ssa.Phi); ok {
			pv := phiVal(phi)
			if pv.GT == nil {
				pv.GT = phi.Type()
			}
			if phi.Comment != "" {
				names[phi.Comment] = pv
			}
			names[phi.Name()] = pv
		}
	}
	// `ranged`: the collection this loop ranges over (evaluated once, before the loop)
	for _, ins := range l.Header.Instrs {
		if nx, ok := ins.(*ssa.Next); ok {
			if rg, ok := nx.Iter.(*ssa.Range); ok {
				if v, ok := c.vals[rg.X]; ok {
					if v.GT == nil {
						v.GT = rg.X.Type()
					}
					names["ranged"] = v
				}
			}
		}
	}
	return names
}

func (c *FnCtx) loopInvariants(l *Loop) []*Clause {
	var r []*Clause
	if l.Spec != nil {
		r = append(r, l.Spec.Invariants...)
	}
	return r
}

// auto invariants for monotone counters: phi = [consts..., phi +/- k]
type autoInv struct {
	phi *ssa.Phi
	op  string // ">=" or "<="
	k   string
}

func (c *FnCtx) autoInvariants(l *Loop) []autoInv {
	var r []autoInv
	for _, ins := range l.Header.Instrs {
		phi, ok := ins.(*ssa.Phi)
		if !ok {
			continue
		}
		if c.M.SortOf(phi.Type()) != SInt {
			continue
		}
		dir := 0
		okAll := true
		var bound *int64
		for i, p := range l.Header.Preds {
			e := phi.Edges[i]
			if isBackEdge(p, l.Header) {
				bo, ok := e.(*ssa.BinOp)
				if !ok {
					okAll = false
					break
				}
				k, isK := bo.Y.(*ssa.Const)
				if bo.X != ssa.Value(phi) || !isK || k.Value == nil {
					okAll = false
					break
				}
				kv := k.Int64()
				d := 0
				if bo.Op == token.ADD && kv > 0 || bo.Op == token.SUB && kv < 0 {
					d = 1
				} else if bo.Op == token.SUB && kv > 0 || bo.Op == token.ADD && kv < 0 {
					d = -1
				}
				if d == 0 || (dir != 0 && d != dir) {
					okAll = false
					break
				}
				dir = d
			} else {
				k, isK := e.(*ssa.Const)
				if !isK || k.Value == nil {
					okAll = false
					break
				}
				kv := k.Int64()
				if bound == nil {
					bound = &kv
				} else if *bound != kv {
					// keep min/max later; be simple: require equal
					okAll = false
					break
				}
			}
		}
		if okAll && dir != 0 && bound != nil {
			ks := fmt.Sprintf("%d", *bound)
			if *bound < 0 {
				ks = fmt.Sprintf("(- %d)", -*bound)
			}
			if dir > 0 {
				r = append(r, autoInv{phi, ">=", ks})
			} else {
				r = append(r, autoInv{phi, "<=", ks})
			}
		}
	}
	return r
}

func (c *FnCtx) loopHeader(b *ssa.BasicBlock, l *Loop, fwd []*ssa.BasicBlock) {
	entrySt := copyState(c.st)
	// havoc modified heaps
	c.havocLoop(l)
	// havoc phis
	hdrVals := map[*ssa.Phi]Val{}
	for _, ins := range b.Instrs {
		phi, ok := ins.(*ssa.Phi)
		if !ok {
			continue
		}
		s := c.M.SortOf(phi.Type())
		// a phi whose back-edge operands are the phi itself is loop-invariant: no havoc
		carried := false
		for i, p := range b.Preds {
			if isBackEdge(p, b) && phi.Edges[i] != ssa.Value(phi) {
				carried = true
			}
		}
		if !carried {
			c.phi(b, phi, fwd)
			hdrVals[phi] = c.vals[phi]
			continue
		}
		n := c.pfx + "v_" + mangle(phi.Name())
		c.declare(n, s)
		c.typeFacts(n, phi.Type())
		v := Val{T: n, S: s, GT: phi.Type()}
		c.vals[phi] = v
		hdrVals[phi] = v
	}
	l.HdrState = copyState(c.st)
	// pseudo-phis for a range iterator whose Next sits in this header
	for _, ins := range b.Instrs {
		if nx, ok := ins.(*ssa.Next); ok {
			if nx.IsString {
				l.PosIn = c.freshConst("pos", SInt)
			} else {
				rg, _ := nx.Iter.(*ssa.Range)
				if rg != nil {
					mt := types.Unalias(rg.X.Type()).Underlying().(*types.Map)
					ks := c.M.SortOf(mt.Key())
					l.SeenIn = c.freshConst("seen", Sort("(Array "+string(ks)+" Bool)"))
				}
			}
		}
	}
	invs := c.loopInvariants(l)
	autos := c.autoInvariants(l)
	// assume invariants at header
	hdrNames := c.loopNames(l, func(p *ssa.Phi) Val { return hdrVals[p] })
	for _, cl := range invs {
		env := &specEnv{c: c, vars: hdrNames, st: c.st, old: c.entry, loop: l, seen: l.SeenIn, bound: map[string]Val{}}
		t, err := env.evalBool(cl.Expr)
		if err != nil {
			c.E.specError(c.Name, cl, err)
			continue
		}
		c.rfact(t)
	}
	for _, a := range autos {
		c.rfact(fmt.Sprintf("(%s %s %s)", a.op, hdrVals[a.phi].T, a.k))
	}
	if l.PosIn != "" {
		// engine-maintained iterator invariant (inductive by construction of Next)
		c.rfact(fmt.Sprintf("(>= %s 0)", l.PosIn))
	}
	// check invariants on entry edges
	save := c.curBlk
	saveSt := c.st
	for _, p := range fwd {
		idx := predIndex(b, p)
		names := c.loopNames(l, func(ph *ssa.Phi) Val { return c.val(ph.Edges[idx]) })
		st := c.outSt[p.Index]
		_ = entrySt
		seen0 := ""
		if l.SeenIn != "" {
			ks := strings.TrimSuffix(strings.TrimPrefix(string(c.sortOfConst(l.SeenIn)), "(Array "), " Bool)")
			seen0 = fmt.Sprintf("((as const (Array %s Bool)) false)", ks)
		}
		c.curBlk = p.Index
		c.st = st
		for i, cl := range invs {
			env := &specEnv{c: c, vars: names, st: st, old: c.entry, loop: l, seen: seen0, bound: map[string]Val{}}
			t, err := env.evalBool(cl.Expr)
			if err != nil {
				continue
			}
			o := c.obligeAt(p.Index, c.edgePred(p, b), "invariant-entry", t, fmt.Sprintf("loop%d/inv%d/from-b%d", l.Ordinal, i+1, p.Index))
			o.Props = cl.Props
			o.Pos = cl.Where
		}
		for i, a := range autos {
			c.obligeAt(p.Index, c.edgePred(p, b), "autoinv-entry", fmt.Sprintf("(%s %s %s)", a.op, c.val(a.phi.Edges[idx]).T, a.k), fmt.Sprintf("loop%d/auto%d", l.Ordinal, i+1))
		}
	}
	c.curBlk = save
	c.st = saveSt
}

func (c *FnCtx) sortOfConst(name string) Sort {
	for _, d := range c.decls {
		pre := "(declare-const " + name + " "
		if strings.HasPrefix(d, pre) {
			return Sort(strings.TrimSuffix(strings.TrimPrefix(d, pre), ")"))
		}
	}
	return ""
}

func predIndex(b, p *ssa.BasicBlock) int {
	for i, x := range b.Preds {
		if x == p {
			return i
		}
	}
	return -1
}

func (c *FnCtx) obligeAt(block int, guard, kind, cond, detail string) *Obligation {
	if c.inl != nil {
		return &Obligation{}
	}
	c.seq++
	c.kcount[kind]++
	// contract obligations are named by clause/loop/return ordinals only (stable under unrelated edits)
	name := fmt.Sprintf("%s/%s#%d", c.Name, kind, c.kcount[kind])
	if detail != "" {
		name = fmt.Sprintf("%s/%s[%s]", c.Name, kind, detail)
	}
	o := &Obligation{Name: name, Kind: kind, Block: block, Seq: c.seq, Guard: guard, Cond: cond, Func: c.Name, Detail: detail}
	c.obls = append(c.obls, o)
	return o
}

func (c *FnCtx) checkBackEdge(from, hdr *ssa.BasicBlock) {
	l := c.loops[hdr.Index]
	idx := predIndex(hdr, from)
	names := c.loopNames(l, func(ph *ssa.Phi) Val { return c.val(ph.Edges[idx]) })
	st := c.outSt[from.Index]
	guard := c.edgePred(from, hdr)
	invs := c.loopInvariants(l)
	seen := l.SeenOut
	for i, cl := range invs {
		env := &specEnv{c: c, vars: names, st: st, old: c.entry, loop: l, seen: seen, bound: map[string]Val{}}
		t, err := env.evalBool(cl.Expr)
		if err != nil {
			c.E.specError(c.Name, cl, err)
			continue
		}
		o := c.obligeAt(from.Index, guard, "invariant-preserved", t, fmt.Sprintf("loop%d/inv%d/from-b%d", l.Ordinal, i+1, from.Index))
		o.Props = cl.Props
		o.Pos = cl.Where
	}
	for i, a := range c.autoInvariants(l) {
		c.obligeAt(from.Index, guard, "autoinv-preserved", fmt.Sprintf("(%s %s %s)", a.op, c.val(a.phi.Edges[idx]).T, a.k), fmt.Sprintf("loop%d/auto%d", l.Ordinal, i+1))
	}
	if l.Spec != nil && l.Spec.Decreases != nil {
		hdrNames := c.loopNames(l, func(p *ssa.Phi) Val { return c.vals[p] })
		e0 := &specEnv{c: c, vars: hdrNames, st: l.HdrState, old: c.entry, loop: l, seen: l.SeenIn, bound: map[string]Val{}}
		m0, _, err0 := e0.eval(l.Spec.Decreases.Expr)
		e1 := &specEnv{c: c, vars: names, st: st, old: c.entry, loop: l, seen: seen, bound: map[string]Val{}}
		m1, _, err1 := e1.eval(l.Spec.Decreases.Expr)
		if err0 == nil && err1 == nil {
			o := c.obligeAt(from.Index, guard, "decreases", fmt.Sprintf("(and (>= %s 0) (< %s %s))", m0.T, m1.T, m0.T), fmt.Sprintf("loop%d/from-b%d", l.Ordinal, from.Index))
			o.Props = l.Spec.Decreases.Props
			o.Pos = l.Spec.Decreases.Where
		} else {
			if err0 != nil {
				c.E.specError(c.Name, l.Spec.Decreases, err0)
			} else {
				c.E.specError(c.Name, l.Spec.Decreases, err1)
			}
		}
	}
}

// ---------- ensures ----------

func (c *FnCtx) resultNames(vals []Val) map[string]Val {
	names := map[string]Val{}
	for n, v := range c.params {
		names[n] = v
	}
	res := c.F.Signature.Results()
	for i := 0; i < res.Len() && i < len(vals); i++ {
		if vals[i].GT == nil {
			vals[i].GT = res.At(i).Type()
		}
		names[fmt.Sprintf("result.%d", i)] = vals[i]
		if n := res.At(i).Name(); n != "" && n != "_" {
			names[n] = vals[i]
		}
		if i == res.Len()-1 && isErrorType(res.At(i).Type()) {
			if _, ok := names["err"]; !ok {
				names["err"] = vals[i]
			}
		}
	}
	if len(vals) >= 1 {
		names["result"] = vals[0]
	}
	return names
}

func isErrorType(t types.Type) bool {
	n, ok := types.Unalias(t).(*types.Named)
	return ok && n.Obj().Name() == "error" && n.Obj().Pkg() == nil
}

func (c *FnCtx) checkEnsures() {
	if c.Spec == nil {
		return
	}
	if c.Spec.Trusted {
		c.note("TRUSTED contract: the ensures clauses of this function are assumed, not checked (listed in evidence)")
		return
	}
	sort.SliceStable(c.retSt, func(i, j int) bool { return c.retSt[i].Block < c.retSt[j].Block })
	for ri, r := range c.retSt {
		names := c.resultNames(r.Vals)
		for i, cl := range c.Spec.Ensures {
			env := &specEnv{c: c, vars: names, st: r.State, old: c.entry, bound: map[string]Val{}, result: r.Vals}
			c.curBlk = r.Block
			c.st = r.State
			t, err := env.evalBool(cl.Expr)
			if err != nil {
				c.E.specError(c.Name, cl, err)
				continue
			}
			o := c.obligeAt(r.Block, r.Guard, "ensures", t, fmt.Sprintf("e%d/ret%d", i+1, ri+1))
			o.Props = cl.Props
			o.Pos = cl.Where
		}
		// assigns (frame) at row granularity is checked at each write; heap-level frame here
		if c.Spec.HasAssigns {
			c.checkFrameAtReturn(r, ri)
		}
	}
}

// havocLoop: heaps written in the loop are havocked at its header; when every write to a heap
// goes directly to the row of an object defined outside the loop, only those rows are havocked.
func (c *FnCtx) havocLoop(l *Loop) {
	pre := copyState(c.st)
	defer func() {
		if len(c.protected) == 0 {
			return
		}
		// local cells written directly inside the loop are genuinely loop-carried
		written := map[*ssa.Alloc]bool{}
		for bi := range l.Blocks {
			for _, ins := range c.F.Blocks[bi].Instrs {
				if root := c.E.writeRoot(ins); root != nil {
					if a, ok := root.(*ssa.Alloc); ok {
						written[a] = true
					}
				}
			}
		}
		c.restoreProtectedExcept(pre, written)
	}()
	if l.Mod["*"] {
		c.havocAll(fmt.Sprintf("loop %d", l.Ordinal))
		return
	}
	rowsOnly := map[string]bool{}
	exist := map[string]bool{}
	for h := range l.Mod {
		if !l.ModWhole[h] && len(l.ModRows[h]) > 0 {
			rowsOnly[h] = true
		} else {
			exist[h] = true
		}
	}
	var hs []string
	for h := range rowsOnly {
		hs = append(hs, h)
	}
	sort.Strings(hs)
	for _, h := range hs {
		c.heapSort(h)
		cur := c.H(h)
		hsort := string(c.heapSort(h))
		// row sort: (Array Int X) -> X
		rowSort := Sort(strings.TrimSuffix(strings.TrimPrefix(hsort, "(Array Int "), ")"))
		seen := map[string]bool{}
		for _, root := range l.ModRows[h] {
			rv := c.v(root)
			ref := rv.T
			if rv.S == SSlice {
				ref = "(s_ref " + rv.T + ")"
			}
			if rv.Place != nil || ref == "" || seen[ref] {
				if rv.Place != nil || ref == "" {
					exist[h] = true
				}
				continue
			}
			seen[ref] = true
			row := c.freshConst("hrow", rowSort)
			cur = fmt.Sprintf("(store %s %s %s)", cur, ref, row)
		}
		if exist[h] {
			continue
		}
		c.setH(h, cur)
	}
	c.havocMod(exist, l.ModFresh, fmt.Sprintf("loop %d", l.Ordinal))
}

func isZeroConstTerm(t string) bool {
	return t == "0" || t == "a_nil" || t == "(mk_slice 0 0 0 0)" || t == "str_empty" || t == "false"
}

// debugUses: identifier name -> distinct non-constant SSA values bound to it by DebugRefs
func (c *FnCtx) debugUses() map[string][]ssa.Value {
	if c.dbgUses != nil {
		return c.dbgUses
	}
	m := map[string][]ssa.Value{}
	for _, b := range c.F.Blocks {
		for _, ins := range b.Instrs {
			d, ok := ins.(*ssa.DebugRef)
			if !ok || d.IsAddr {
				continue
			}
			id, ok := d.Expr.(*ast.Ident)
			if !ok {
				continue
			}
			if _, isConst := d.X.(*ssa.Const); isConst {
				continue
			}
			dup := false
			for _, v := range m[id.Name] {
				if v == d.X {
					dup = true
				}
			}
			if !dup {
				m[id.Name] = append(m[id.Name], d.X)
			}
		}
	}
	c.dbgUses = m
	return m
}
