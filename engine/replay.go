package main

// replay.go — counterexample extraction (candidate model from the quantifier-stripped script via
// the z3 python API) and replay on the real code with `go test -overlay` (nothing is written to /repo).

import (
	"bytes"
	"context"
	"encoding/json"
	"fmt"
	"go/types"
	"os"
	"os/exec"
	"path/filepath"
	"sort"
	"strconv"
	"strings"
	"time"

	"golang.org/x/tools/go/ssa"
)

func paramKind(m *Model, t types.Type) (kind string, sort Sort, ok bool) {
	t = types.Unalias(t)
	switch u := t.Underlying().(type) {
	case *types.Basic:
		switch {
		case u.Info()&types.IsString != 0:
			return "str", SStr, true
		case u.Info()&types.IsInteger != 0:
			return "int", SInt, true
		case u.Info()&types.IsBoolean != 0:
			return "bool", SBool, true
		}
	case *types.Interface:
		if u.NumMethods() == 0 {
			return "any", SAny, true
		}
	case *types.Signature:
		return "func", SInt, true
	case *types.Slice:
		ek, _, ok := paramKind(m, u.Elem())
		if ok && (ek == "str" || ek == "any" || ek == "int") {
			return "slice:" + ek, SSlice, true
		}
	case *types.Map:
		kk, _, ok1 := paramKind(m, u.Key())
		vk, _, ok2 := paramKind(m, u.Elem())
		if ok1 && ok2 && kk == "str" && (vk == "str" || vk == "any") {
			return "map:" + vk, SInt, true
		}
	}
	return "", "", false
}

// strippedScript: drop every assumed fact that contains a quantifier (sound weakening of the
// assumptions: a model of the result is only a candidate)
func strippedScript(full string) string {
	var b strings.Builder
	lines := strings.Split(full, "\n")
	for i, l := range lines {
		if strings.HasPrefix(l, "(assert ") && strings.Contains(l, "(forall ") {
			// keep the negated goal (last assert before check-sat)
			isGoal := i+2 < len(lines) && strings.HasPrefix(lines[i+1], "(check-sat)")
			if !isGoal {
				continue
			}
		}
		b.WriteString(l)
		b.WriteByte('\n')
	}
	return b.String()
}

func candidateModel(j *Job) (map[string]any, bool) {
	c := j.Ctx
	fn := c.F
	if fn.Parent() != nil || len(fn.FreeVars) > 0 {
		return map[string]any{"reason": "closure: not callable from a test"}, false
	}
	type root struct {
		Name string `json:"name"`
		Term string `json:"term"`
		Kind string `json:"kind"`
		Sort string `json:"sort"`
	}
	var roots []root
	for i, p := range fn.Params {
		if i == 0 && fn.Signature.Recv() != nil {
			if _, isPtr := types.Unalias(p.Type()).Underlying().(*types.Pointer); isPtr {
				continue // pointer receivers are built as zero values
			}
		}
		k, s, ok := paramKind(c.M, p.Type())
		if !ok {
			return map[string]any{"reason": "parameter " + p.Name() + " of type " + p.Type().String() + " is not concretisable"}, false
		}
		if k == "func" {
			continue // replayed with a function returning zero values
		}
		roots = append(roots, root{p.Name(), c.vals[p].T, k, string(s)})
	}
	heaps := map[string]map[string]string{}
	stripped := strippedScript(j.Script())
	for hn, term := range c.entry {
		if strings.HasPrefix(hn, "S|") || strings.HasPrefix(hn, "M|") || strings.HasPrefix(hn, "D|") {
			// only heap classes this obligation's script declares (the script mentions the heaps it uses)
			if !strings.Contains(stripped, "(declare-const "+term+" ") {
				continue
			}
			heaps[hn] = map[string]string{"term": term, "sort": string(c.heapSort(hn))}
		}
	}
	req := map[string]any{"script": stripped, "roots": roots, "heaps": heaps}
	in, _ := json.Marshal(req)
	ctx, cancel := context.WithTimeout(context.Background(), 30*time.Second)
	defer cancel()
	exe, _ := os.Executable()
	py := filepath.Join(filepath.Dir(filepath.Dir(exe)), "engine", "modelquery.py")
	cmd := exec.CommandContext(ctx, "python3-vt", py)
	cmd.Stdin = bytes.NewReader(in)
	var out bytes.Buffer
	cmd.Stdout = &out
	cmd.Stderr = &out
	if err := cmd.Run(); err != nil {
		return map[string]any{"reason": "modelquery failed: " + err.Error(), "output": truncate(out.String(), 500)}, false
	}
	var res map[string]any
	if err := json.Unmarshal(out.Bytes(), &res); err != nil {
		return map[string]any{"reason": "modelquery output unparsable", "output": truncate(out.String(), 500)}, false
	}
	if res["status"] != "sat" {
		return res, false
	}
	return res, true
}

func bytesOf(v any) string {
	arr, _ := v.([]any)
	b := make([]byte, 0, len(arr))
	for _, x := range arr {
		f, _ := x.(float64)
		b = append(b, byte(int(f)))
	}
	return string(b)
}

func renderAny(v any, depth int) string {
	m, ok := v.(map[string]any)
	if !ok || depth > 4 {
		return "nil"
	}
	switch m["t"] {
	case "nil":
		return "nil"
	case "bool":
		if b, _ := m["v"].(bool); b {
			return "true"
		}
		return "false"
	case "int":
		f, _ := m["v"].(float64)
		return fmt.Sprintf("int(%d)", int64(f))
	case "float":
		return "float64(0.5)"
	case "str":
		return strconv.Quote(bytesOf(m["v"]))
	case "map":
		ents, ok := m["v"].([]any)
		if !ok {
			return "map[string]any(nil)"
		}
		var ps []string
		seen := map[string]bool{}
		for _, e := range ents {
			kv, _ := e.([]any)
			if len(kv) != 2 {
				continue
			}
			k := bytesOf(kv[0])
			if seen[k] {
				continue
			}
			seen[k] = true
			ps = append(ps, strconv.Quote(k)+": "+renderAny(kv[1], depth+1))
		}
		return "map[string]any{" + strings.Join(ps, ", ") + "}"
	case "mapaa":
		return "map[any]any{}"
	case "list":
		els, ok := m["v"].([]any)
		if !ok {
			return "[]any(nil)"
		}
		var ps []string
		for _, e := range els {
			ps = append(ps, renderAny(e, depth+1))
		}
		return "[]any{" + strings.Join(ps, ", ") + "}"
	}
	return "struct{ X int }{1}"
}

func renderValue(kind string, v any) string {
	switch {
	case kind == "str":
		return strconv.Quote(bytesOf(v))
	case kind == "int":
		f, _ := v.(float64)
		return fmt.Sprintf("%d", int64(f))
	case kind == "bool":
		b, _ := v.(bool)
		return fmt.Sprintf("%v", b)
	case kind == "any":
		return renderAny(v, 0)
	case strings.HasPrefix(kind, "slice:"):
		els, ok := v.([]any)
		if !ok {
			return "nil"
		}
		var ps []string
		for _, e := range els {
			ps = append(ps, renderValue(kind[6:], e))
		}
		return "{" + strings.Join(ps, ", ") + "}"
	case strings.HasPrefix(kind, "map:"):
		ents, ok := v.([]any)
		if !ok {
			return "nil"
		}
		var ps []string
		seen := map[string]bool{}
		for _, e := range ents {
			kv, _ := e.([]any)
			if len(kv) != 2 {
				continue
			}
			k := bytesOf(kv[0])
			if seen[k] {
				continue
			}
			seen[k] = true
			ps = append(ps, strconv.Quote(k)+": "+renderValue(kind[4:], kv[1]))
		}
		return "{" + strings.Join(ps, ", ") + "}"
	}
	return "nil"
}

func tryReplay(e *Engine, j *Job, model map[string]any) map[string]any {
	c := j.Ctx
	fn := c.F
	vals, _ := model["values"].(map[string]any)
	pkg := fn.Pkg
	if pkg == nil {
		return map[string]any{"confirmed": false, "reason": "no package"}
	}
	imports := map[string]string{}
	qual := func(p *types.Package) string {
		if p == pkg.Pkg {
			return ""
		}
		imports[p.Path()] = p.Name()
		return p.Name()
	}
	var decls []string
	var args []string
	recvExpr := ""
	for i, p := range fn.Params {
		ts := types.TypeString(p.Type(), qual)
		if i == 0 && fn.Signature.Recv() != nil {
			if pt, isPtr := types.Unalias(p.Type()).Underlying().(*types.Pointer); isPtr {
				decls = append(decls, fmt.Sprintf("\trecv := new(%s)", types.TypeString(pt.Elem(), qual)))
				recvExpr = "recv"
				continue
			}
		}
		k, _, _ := paramKind(c.M, p.Type())
		lit := renderValue(k, vals[p.Name()])
		var init string
		switch {
		case strings.HasPrefix(k, "slice:") || strings.HasPrefix(k, "map:"):
			if lit == "nil" {
				init = fmt.Sprintf("\tvar a%d %s", i, ts)
			} else {
				init = fmt.Sprintf("\tvar a%d %s = %s%s", i, ts, ts, lit)
			}
		case k == "any":
			init = fmt.Sprintf("\tvar a%d any = %s", i, lit)
		case k == "func":
			sig := types.Unalias(p.Type()).Underlying().(*types.Signature)
			var ps, rs, zs []string
			for q := 0; q < sig.Params().Len(); q++ {
				ps = append(ps, "_ "+types.TypeString(sig.Params().At(q).Type(), qual))
			}
			for q := 0; q < sig.Results().Len(); q++ {
				rs = append(rs, fmt.Sprintf("r%d %s", q, types.TypeString(sig.Results().At(q).Type(), qual)))
				zs = append(zs, fmt.Sprintf("r%d", q))
			}
			body := "return"
			_ = zs
			init = fmt.Sprintf("\tvar a%d %s = func(%s) (%s) { %s }", i, ts, strings.Join(ps, ", "), strings.Join(rs, ", "), body)
		default:
			init = fmt.Sprintf("\tvar a%d %s = %s(%s)", i, ts, ts, lit)
		}
		decls = append(decls, init)
		if i == 0 && fn.Signature.Recv() != nil {
			recvExpr = fmt.Sprintf("a%d", i)
			continue
		}
		args = append(args, fmt.Sprintf("a%d", i))
	}
	call := fn.Name() + "(" + strings.Join(args, ", ") + ")"
	if fn.Signature.Variadic() && len(args) > 0 {
		call = fn.Name() + "(" + strings.Join(args, ", ") + "...)"
	}
	if recvExpr != "" {
		call = recvExpr + "." + call
	}
	var imps []string
	for p, n := range imports {
		imps = append(imps, fmt.Sprintf("\t%s %q", n, p))
	}
	sort.Strings(imps)
	src := fmt.Sprintf(`package %s

import (
	"testing"
%s
)

// generated by govc: replay of the candidate counterexample for obligation
// %s
func TestVerifReplay(t *testing.T) {
	defer func() {
		if r := recover(); r != nil {
			t.Logf("REPLAY-PANIC: %%v", r)
			t.Fail()
		}
	}()
%s
	%s
	t.Logf("REPLAY-NO-PANIC")
}
`, pkg.Pkg.Name(), strings.Join(imps, "\n"), j.O.Name, strings.Join(decls, "\n"), call)
	// overlay
	dir := ""
	for _, p := range e.Pkgs {
		if p.PkgPath == pkg.Pkg.Path() && len(p.GoFiles) > 0 {
			dir = filepath.Dir(p.GoFiles[0])
		}
	}
	if dir == "" {
		return map[string]any{"confirmed": false, "reason": "package directory not found", "test": src}
	}
	tmp, err := os.MkdirTemp("", "govc-replay")
	if err != nil {
		return map[string]any{"confirmed": false, "reason": err.Error()}
	}
	defer os.RemoveAll(tmp)
	tf := filepath.Join(tmp, "replay_test.go")
	os.WriteFile(tf, []byte(src), 0o644)
	ov, _ := json.Marshal(map[string]any{"Replace": map[string]string{filepath.Join(dir, "zz_verif_replay_test.go"): tf}})
	of := filepath.Join(tmp, "ov.json")
	os.WriteFile(of, ov, 0o644)
	ctx, cancel := context.WithTimeout(context.Background(), 120*time.Second)
	defer cancel()
	cmd := exec.CommandContext(ctx, "go", "test", "-overlay", of, "-vet=off", "-count=1", "-timeout", "60s", "-run", "^TestVerifReplay$", "-v", ".")
	cmd.Dir = dir
	cmd.Env = append(os.Environ(), "GOFLAGS=-mod=mod", "GOPROXY=off", "GOSUMDB=off", "GOTOOLCHAIN=local")
	var out bytes.Buffer
	cmd.Stdout = &out
	cmd.Stderr = &out
	cmd.Run()
	text := out.String()
	res := map[string]any{"test": src, "go_test_output": truncate(text, 3000)}
	isK1 := k1Kinds[j.O.Kind]
	switch {
	case strings.Contains(text, "REPLAY-PANIC"):
		res["observed"] = "panic"
		res["confirmed"] = isK1
		if !isK1 {
			res["reason"] = "a panic was observed but the failed obligation is a functional clause"
		}
	case strings.Contains(text, "REPLAY-NO-PANIC"):
		res["observed"] = "no panic"
		res["confirmed"] = false
		res["reason"] = "candidate model does not reproduce on the real code (abstraction or spurious model)"
	default:
		res["observed"] = "test did not run"
		res["confirmed"] = false
		res["reason"] = "generated test did not compile or timed out"
	}
	return res
}

var _ = ssa.NewProgram
