#!/bin/bash
# usage: check.sh <property-id> [quick|thorough]
# Rebuilds nothing from caches of /repo: govc loads /repo's current working tree on every run.
export GOFLAGS=-mod=mod GOPROXY=off GOSUMDB=off GOTOOLCHAIN=local
cd /verif
P="$1"; T="${2:-quick}"
if [ ! -x /verif/bin/govc ] || [ -n "$(find /verif/engine -newer /verif/bin/govc -name '*.go' 2>/dev/null | head -1)" ]; then
  (cd /verif/engine && go build -o /verif/bin/govc .) || { echo "ENGINE-ERROR build failed"; exit 3; }
fi
exec /verif/bin/govc check --property "$P" --tier "$T" --repo /repo --verif /verif
