// dir: loader
// Demonstration for "fix: transform: canonical transformers return an error instead of panicking ...":
// the base file of `extends: {file: ...}` is loaded without schema validation and canonicalised.
package loader_test

import (
	"context"
	"os"
	"path/filepath"
	"testing"

	"github.com/compose-spec/compose-go/v2/loader"
	"github.com/compose-spec/compose-go/v2/types"
)

func TestTransformPanics(t *testing.T) {
	bases := map[string]string{
		"depends_on-number":  "services: {b: {image: x, depends_on: [1]}}",
		"networks-number":    "services: {b: {image: x, networks: [1]}}",
		"volume-scalar":      "services: {b: {image: x}}\nvolumes: {v: 1}",
		"external-name-list": "services: {b: {image: x}}\nvolumes: {v: {name: [1], external: {name: [1]}}}",
	}
	for name, base := range bases {
		t.Run(name, func(t *testing.T) {
			dir := t.TempDir()
			_ = os.WriteFile(filepath.Join(dir, "base.yaml"), []byte(base), 0o600)
			defer func() {
				if r := recover(); r != nil {
					t.Fatalf("PANIC: %v", r)
				}
			}()
			_, _ = loader.LoadWithContext(context.Background(), types.ConfigDetails{WorkingDir: dir,
				ConfigFiles: []types.ConfigFile{{Filename: filepath.Join(dir, "compose.yaml"), Content: []byte("services: {a: {extends: {file: base.yaml, service: b}}}")}},
				Environment: map[string]string{}}, func(o *loader.Options) { o.SetProjectName("demo", true) })
		})
	}
}
