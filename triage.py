#!/usr/bin/env python3
"""triage.py <sweep-output-file> [--apply]
Turns every obligation that does not discharge on the reference tree into an explicit non-claim:
 * failing ensures / invariant / decreases clause  -> the clause line becomes inactive (`//@?`), so no caller assumes it
 * failing safety / precondition / frame obligation -> `//@   except <name> : undischarged` in the function's contract block
Genuine defects must be handled BEFORE running this (fix: commit or known_findings.txt)."""
import re, sys, collections
out = open(sys.argv[1]).read().splitlines()
apply = '--apply' in sys.argv
deact = set()          # (file, line)
excepts = collections.defaultdict(list)   # func key -> [names]
for l in out:
    m = re.match(r'\s+(failed|unknown:\S+)\s+(\S.*?)\s+@(\S*)(?:\s+~(\S*))?\s*$', l)
    if not m:
        continue
    name, pos, stable = m.group(2), m.group(3), m.group(4) or ''
    # function key = up to the last '/<kind>'
    mm = re.match(r'(.*?)/((?:typeassert|index|slice|nilmap|nilderef|div|panic|nilfunc|nilrecv|makeslice|ifacecmp|mapkey|nilbox|precondition|closure-precondition|frame|ensures|invariant-entry|invariant-preserved|decreases|autoinv-entry|autoinv-preserved)\b.*)$', name)
    if not mm:
        print("??", l); continue
    fn, rest = mm.group(1), mm.group(2)
    kind = re.match(r'[a-z-]+', rest).group(0)
    if kind in ('ensures', 'invariant-entry', 'invariant-preserved', 'decreases') and 'verif_contracts' in pos:
        f, ln = pos.rsplit(':', 1)
        deact.add((f, int(ln)))
    else:
        short = rest.split('[')[0] if kind not in ('frame',) else rest
        if kind in ('precondition', 'closure-precondition'):
            short = rest.split('[')[0]
        if stable:
            short = stable   # kind@<hash of the source line>#k: survives insertions elsewhere in the function
        excepts[fn].append(short)
print("clauses to deactivate:", len(deact), " functions with excepts:", len(excepts))
if not apply:
    for d in sorted(deact): print("  deactivate", d)
    for f, xs in excepts.items(): print("  except", f, sorted(set(xs)))
    sys.exit(0)
import glob, os
files = collections.defaultdict(list)
for f, ln in deact: files[f].append(ln)
for f, lns in files.items():
    lines = open(f).read().split('\n')
    for ln in lns:
        i = ln - 1
        if 'KNOWN FINDING' in lines[i]:
            continue
        if lines[i].startswith('//@') and not lines[i].startswith('//@?'):
            lines[i] = '//@?' + lines[i][3:] + '   // undischarged on the reference tree: not claimed'
            # continuation lines of the same clause go with it
            j = i + 1
            kw = re.compile(r'^//@\s*(requires|ensures|invariant|decreases|nopanic|assigns|pure|loop|func|spec|order-independent|trusted|table|row|exact|except)\b')
            while j < len(lines) and lines[j].startswith('//@') and not lines[j].startswith('//@?') and not kw.match(lines[j]) and lines[j].strip() != '//@':
                lines[j] = '//@?' + lines[j][3:]
                j += 1
    open(f, 'w').write('\n'.join(lines))
# excepts: find func block
specfiles = glob.glob('/repo/*/verif_contracts*.go')
for fn, xs in excepts.items():
    pkg, name = fn.split('.', 1)
    done = False
    for f in sorted(specfiles):
        if os.path.basename(os.path.dirname(f)) != pkg: continue
        lines = open(f).read().split('\n')
        for i, l in enumerate(lines):
            if l.strip() == '//@ func ' + name:
                lines.insert(i + 1, '//@   except ' + ', '.join(sorted(set(xs))) + ' : undischarged on the reference tree (engine limit or missing callee contract), not claimed')
                open(f, 'w').write('\n'.join(lines)); done = True; break
        if done: break
    if not done:
        # function without a contract block: create one in the package's main contract file
        f = '/repo/%s/verif_contracts.go' % pkg
        if os.path.exists(f):
            open(f, 'a').write('\n//@ func %s\n//@   except %s : undischarged on the reference tree, not claimed\n' % (name, ', '.join(sorted(set(xs)))))
        else:
            print("no contract file for", fn)
