package main

// solve.go — discharge obligations with z3-new / z3 / cvc5.

import (
	"bytes"
	"context"
	"fmt"
	"os/exec"
	"strings"
	"sync"
	"time"
)

type SolverResult struct {
	Status string // unsat | sat | unknown | timeout | error
	Solver string
	MS     int64
	Output string
}

var solverStats = struct {
	sync.Mutex
	wins map[string]int
	ms   map[string]int64
}{wins: map[string]int{}, ms: map[string]int64{}}

func runSolver(name string, script string, timeout time.Duration, wantModel bool) SolverResult {
	var cmd *exec.Cmd
	ctx, cancel := context.WithTimeout(context.Background(), timeout+2*time.Second)
	defer cancel()
	tsec := int(timeout.Seconds())
	if tsec < 1 {
		tsec = 1
	}
	in := script
	switch name {
	case "z3-new", "z3":
		if wantModel {
			in = "(set-option :produce-models true)\n" + script + "(get-model)\n"
		}
		cmd = exec.CommandContext(ctx, name, "-in", "-smt2", fmt.Sprintf("-T:%d", tsec))
	case "cvc5":
		in = "(set-logic ALL)\n" + script
		cmd = exec.CommandContext(ctx, "cvc5", "--lang=smt2", fmt.Sprintf("--tlimit=%d", tsec*1000), "-")
	}
	cmd.Stdin = strings.NewReader(in)
	var out bytes.Buffer
	cmd.Stdout = &out
	cmd.Stderr = &out
	t0 := time.Now()
	err := cmd.Run()
	ms := time.Since(t0).Milliseconds()
	text := out.String()
	first := ""
	for _, ln := range strings.Split(text, "\n") {
		ln = strings.TrimSpace(ln)
		if ln == "" || strings.HasPrefix(ln, "WARNING") || strings.HasPrefix(ln, "(warning") {
			continue
		}
		first = ln
		break
	}
	res := SolverResult{Solver: name, MS: ms, Output: text}
	switch first {
	case "unsat", "sat", "unknown":
		res.Status = first
	default:
		if ctx.Err() != nil || strings.Contains(text, "timeout") || strings.Contains(text, "interrupted") {
			res.Status = "timeout"
		} else {
			res.Status = "error"
			_ = err
		}
	}
	return res
}

// discharge races the solvers: z3-new first; if it is not definite, z3 and cvc5 in parallel.
func discharge(script string, timeout time.Duration, wantModel bool) SolverResult {
	r := runSolver("z3-new", script, timeout, false)
	if r.Status == "unsat" {
		record(r)
		return r
	}
	if r.Status == "sat" {
		if wantModel {
			rm := runSolver("z3-new", script, timeout, true)
			if rm.Status == "sat" {
				r = rm
			}
		}
		record(r)
		return r
	}
	type rs struct{ r SolverResult }
	ch := make(chan SolverResult, 2)
	for _, s := range []string{"z3", "cvc5"} {
		go func(s string) { ch <- runSolver(s, script, timeout, false) }(s)
	}
	best := r
	for i := 0; i < 2; i++ {
		x := <-ch
		if x.Status == "unsat" {
			record(x)
			return x
		}
		if x.Status == "sat" && best.Status != "sat" {
			best = x
		}
		if best.Status == "error" && x.Status != "error" {
			best = x
		}
	}
	record(best)
	return best
}

func record(r SolverResult) {
	solverStats.Lock()
	solverStats.wins[r.Solver+":"+r.Status]++
	solverStats.ms[r.Solver] += r.MS
	solverStats.Unlock()
}

// dischargeAll runs obligations on a worker pool.
func dischargeAll(jobs []func(), workers int) {
	var wg sync.WaitGroup
	ch := make(chan func())
	for i := 0; i < workers; i++ {
		wg.Add(1)
		go func() {
			defer wg.Done()
			for j := range ch {
				j()
			}
		}()
	}
	for _, j := range jobs {
		ch <- j
	}
	close(ch)
	wg.Wait()
}
