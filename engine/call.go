package main

// call.go — calls: builtins, contracts of /repo functions, models of external functions, frames.

import (
	"fmt"
	"go/ast"
	"go/token"
	"go/types"
	"os"
	"path/filepath"
	"regexp"
	"sort"
	"strings"

	"golang.org/x/tools/go/ssa"
)

func (c *FnCtx) call(ins ssa.Instruction, cc *ssa.CallCommon, res ssa.Value) {
	var pre map[string]string
	if len(c.protected) > 0 {
		pre = copyState(c.st)
	}
	r := c.callEffects(cc, res, ins.Pos(), false)
	if pre != nil {
		c.restoreProtected(pre)
	}
	if res != nil {
		if r.GT == nil {
			r.GT = res.Type()
		}
		c.bind(res, r)
	}
	// results of static calls (outside loops) get spec names res_<Callee>_<k> (single result) or
	// res_<Callee>_<k>.<i> (tuple): "what this call of Callee returned", k-th call of that name in source order
	if sc := cc.StaticCallee(); sc != nil && c.inl == nil && res != nil {
		if c.resCount == nil {
			c.resCount = map[string]int{}
		}
		nm := sc.Name()
		c.resCount[nm]++
		inLoop := false
		for _, l := range c.loops {
			if l != nil && l.Blocks[c.curBlk] {
				inLoop = true
			}
		}
		if !inLoop {
			base := fmt.Sprintf("res_%s_%d", mangle(nm), c.resCount[nm])
			if r.Tup != nil {
				for i, v := range r.Tup {
					if v.GT == nil && i < sc.Signature.Results().Len() {
						v.GT = sc.Signature.Results().At(i).Type()
					}
					c.params[fmt.Sprintf("%s.%d", base, i)] = v
				}
			} else if r.T != "" {
				v := r
				if v.GT == nil && sc.Signature.Results().Len() == 1 {
					v.GT = sc.Signature.Results().At(0).Type()
				}
				c.params[base] = v
			}
		}
	}
	// results of calls through function values get spec names dyn<k>.<i> (k-th such call in source order,
	// outside loops only): "the value the callback returned in this call"
	if !cc.IsInvoke() && cc.StaticCallee() == nil && c.inl == nil {
		if _, isB := cc.Value.(*ssa.Builtin); !isB {
			c.dynCalls++
			inLoop := false
			for _, l := range c.loops {
				if l != nil && l.Blocks[c.curBlk] {
					inLoop = true
				}
			}
			if !inLoop {
				vals := r.Tup
				if vals == nil && r.T != "" {
					vals = []Val{r}
				}
				if sig, ok := types.Unalias(cc.Value.Type()).Underlying().(*types.Signature); ok {
					for i, v := range vals {
						if v.GT == nil && i < sig.Results().Len() {
							v.GT = sig.Results().At(i).Type()
						}
						c.params[fmt.Sprintf("dyn%d.%d", c.dynCalls, i)] = v
					}
				}
			}
		}
	}
}

func errNonNil(c *FnCtx) string {
	id := c.freshConst("errid", SInt)
	return fmt.Sprintf("(a_other %d %s)", c.M.TypeID(types.Universe.Lookup("error").Type()), id)
}

// callEffects models a call and returns its result value.
func (c *FnCtx) callEffects(cc *ssa.CallCommon, res ssa.Value, pos token.Pos, detached bool) Val {
	var resType types.Type = types.NewTuple()
	if res != nil {
		resType = res.Type()
	} else if sig, ok := cc.Value.Type().Underlying().(*types.Signature); ok && !cc.IsInvoke() {
		resType = sig.Results()
		if sig.Results().Len() == 1 {
			resType = sig.Results().At(0).Type()
		}
	}
	var args []Val
	for _, a := range cc.Args {
		args = append(args, c.v(a))
	}
	if cc.IsInvoke() {
		recv := c.v(cc.Value)
		name := cc.Method.Name()
		full := cc.Method.FullName()
		switch {
		case name == "Error" || name == "String":
			c.oblige("nilderef", fmt.Sprintf("(not (= %s a_nil))", recv.T), cc.Value.Name()+"."+name+"()", pos)
			return c.havocVal("str", resType)
		}
		c.oblige("nilderef", fmt.Sprintf("(not (= %s a_nil))", recv.T), cc.Value.Name()+"."+name+"()", pos)
		if c.E.pureInvoke(full) {
			return c.havocVal("inv", resType)
		}
		c.havocAll("interface method call " + full)
		return c.havocVal("inv", resType)
	}
	// builtin
	if b, ok := cc.Value.(*ssa.Builtin); ok {
		return c.builtin(b.Name(), cc, args, resType, pos)
	}
	fv := c.v(cc.Value)
	var callee *ssa.Function
	var bindings []Val
	if fv.Fn != nil && fv.Fn.Fn != nil {
		callee = fv.Fn.Fn
		bindings = fv.Fn.Bindings
	}
	if callee == nil && len(fv.Cands) > 0 {
		return c.dispatchCall(fv.Cands, args, cc, resType, pos)
	}
	if callee == nil && !(c.Spec != nil && c.Spec.Pure) {
		if sig, ok := types.Unalias(cc.Value.Type()).Underlying().(*types.Signature); ok {
			if cands := c.dynamicDispatch(fv, sig); len(cands) > 0 {
				if fv.Place == nil && fv.T != "" {
					c.oblige("nilfunc", fmt.Sprintf("(not (= %s 0))", fv.T), cc.Value.Name()+"()", pos)
				}
				return c.dispatchCall(cands, args, cc, resType, pos)
			}
		}
	}
	if callee == nil {
		// dynamic call through an unknown function value
		if fv.Place == nil && fv.T != "" {
			c.oblige("nilfunc", fmt.Sprintf("(not (= %s 0))", fv.T), cc.Value.Name()+"()", pos)
		}
		if c.Spec != nil && c.Spec.Pure {
			// function declared pure: its callbacks are assumed pure too (stated in contract)
			c.note("callback assumed pure: " + cc.Value.Name())
			return c.havocVal("dyn", resType)
		}
		c.havocAll("call through function value " + cc.Value.Name())
		return c.havocVal("dyn", resType)
	}
	return c.staticCall(callee, bindings, args, cc, resType, pos)
}

func (c *FnCtx) staticCall(callee *ssa.Function, bindings, args []Val, cc *ssa.CallCommon, resType types.Type, pos token.Pos) Val {
	key := fnKey(callee)
	c.callsiteObligations(callee, bindings, args, pos)
	// 1. extern model
	if m, ok := externModels[externName(callee)]; ok {
		if v, handled := m(c, callee, args, resType, pos); handled {
			return v
		}
	}
	inRepo := c.E.inRepo(callee)
	if inRepo && callee.Signature.Recv() != nil && len(args) > 0 && args[0].T != "" && args[0].Place == nil {
		if _, isPtr := types.Unalias(callee.Params[0].Type()).Underlying().(*types.Pointer); isPtr {
			c.oblige("nilrecv", fmt.Sprintf("(not (= %s 0))", args[0].T), fnKey(callee), pos)
		}
	}
	if inRepo {
		for i, a := range args {
			if a.S == SAny && a.T != "" && i < len(callee.Params) {
				if _, isIface := types.Unalias(callee.Params[i].Type()).Underlying().(*types.Interface); isIface && !isErrorType(callee.Params[i].Type()) {
					c.wfSink(a.T, "argument "+callee.Params[i].Name()+" of "+key, pos)
				}
			}
		}
		if spec := c.E.Specs.Funcs[key]; spec != nil {
			return c.applyContract(callee, spec, bindings, args, resType, pos, cc)
		}
		// small leaf helper without contract: inline its summary if available
		if v, ok := c.tryInline(callee, bindings, args, resType, pos); ok {
			return v
		}
		mi := c.E.modAtCall(c.F, cc, callee)
		c.havocMod(mi.Exist, mi.Fresh, "call "+key)
		return c.havocVal("r_"+mangle(callee.Name()), resType)
	}
	// 2. generic external
	return c.genericExtern(callee, args, resType, pos)
}

func externName(f *ssa.Function) string {
	if f.Origin() != nil {
		f = f.Origin()
	}
	s := f.String()
	return s
}

// fnKey: pkgname.Func | pkgname.(*T).M | pkgname.(T).M | pkgname.F$1
func fnKey(f *ssa.Function) string {
	if o := f.Origin(); o != nil {
		f = o
	}
	// closure of a method: the enclosing method's key plus the $N suffix (two methods may share a name)
	if p := f.Parent(); p != nil && f.Signature.Recv() == nil {
		top := p
		for top.Parent() != nil {
			top = top.Parent()
		}
		if top.Signature.Recv() != nil && strings.HasPrefix(f.Name(), top.Name()+"$") {
			return fnKey(top) + f.Name()[len(top.Name()):]
		}
	}
	pkg := ""
	if f.Pkg != nil {
		pkg = f.Pkg.Pkg.Name()
	} else if f.Parent() != nil {
		p := f.Parent()
		for p.Parent() != nil {
			p = p.Parent()
		}
		if p.Pkg != nil {
			pkg = p.Pkg.Pkg.Name()
		}
	}
	if recv := f.Signature.Recv(); recv != nil {
		rt := types.TypeString(recv.Type(), func(*types.Package) string { return "" })
		if f.Pkg == nil {
			if n, ok := derefNamed(recv.Type()); ok && n.Obj().Pkg() != nil {
				pkg = n.Obj().Pkg().Name()
			}
		}
		// strip type args
		if i := strings.Index(rt, "["); i >= 0 {
			rt = rt[:i]
		}
		return pkg + ".(" + rt + ")." + f.Name()
	}
	return pkg + "." + f.Name()
}

func derefNamed(t types.Type) (*types.Named, bool) {
	t = types.Unalias(t)
	if p, ok := t.(*types.Pointer); ok {
		t = types.Unalias(p.Elem())
	}
	n, ok := t.(*types.Named)
	return n, ok
}

// ---------- contract application ----------

func (c *FnCtx) calleeEnv(callee *ssa.Function, bindings, args []Val) map[string]Val {
	names := map[string]Val{}
	for i, p := range callee.Params {
		if i < len(args) {
			v := args[i]
			if v.GT == nil {
				v.GT = p.Type()
			}
			names[p.Name()] = v
		}
	}
	for i, fv := range callee.FreeVars {
		if i < len(bindings) {
			v := bindings[i]
			if v.GT == nil {
				v.GT = fv.Type()
			}
			// captured variable: its name denotes the content of the captured cell
			names["&"+fv.Name()] = v
		}
	}
	return names
}

func (c *FnCtx) applyContract(callee *ssa.Function, spec *FuncSpec, bindings, args []Val, resType types.Type, pos token.Pos, cc *ssa.CallCommon) Val {
	key := fnKey(callee)
	c.E.usedContract(c.Name, key)
	names := c.calleeEnv(callee, bindings, args)
	pre := copyState(c.st)
	// requires
	for i, cl := range spec.Requires {
		if c.E.establishedAtCreation(callee, cl) {
			// a clause over captured, never reassigned variables only: obliged where the closure is made
			// (kind closure-precondition in the enclosing function, which is itself under contract)
			continue
		}
		env := &specEnv{c: c, vars: names, st: pre, old: pre, bound: map[string]Val{}, callee: callee}
		t, err := env.evalBool(cl.Expr)
		if err != nil {
			c.E.specError(c.Name+" (call to "+key+")", cl, err)
			continue
		}
		o := c.oblige("precondition", t, fmt.Sprintf("%s/requires%d", key, i+1), pos)
		o.Props = cl.Props
	}
	// frame
	mi := c.E.modAtCall(c.F, cc, callee)
	if below := spec.belowParams(); len(below) > 0 && cc != nil {
		c.havocBelow(callee, below, cc, mi, key)
	} else if spec.HasAssigns {
		c.havocWithAssigns(spec, names, pre, mi.Exist)
		c.havocMod(map[string]bool{}, mi.Fresh, "call "+key)
	} else {
		c.havocMod(mi.Exist, mi.Fresh, "call "+key)
	}
	// results
	r := c.havocVal("r_"+mangle(callee.Name()), resType)
	var rvals []Val
	if r.Tup != nil {
		rvals = r.Tup
	} else if r.T != "" {
		rvals = []Val{r}
	}
	rn := map[string]Val{}
	for k, v := range names {
		rn[k] = v
	}
	res := callee.Signature.Results()
	for i := 0; i < res.Len() && i < len(rvals); i++ {
		v := rvals[i]
		v.GT = res.At(i).Type()
		rn[fmt.Sprintf("result.%d", i)] = v
		if n := res.At(i).Name(); n != "" && n != "_" {
			rn[n] = v
		}
		if i == res.Len()-1 && isErrorType(res.At(i).Type()) {
			if _, ok := rn["err"]; !ok {
				rn["err"] = v
			}
		}
	}
	if len(rvals) > 0 {
		v := rvals[0]
		v.GT = res.At(0).Type()
		rn["result"] = v
	}
	for _, cl := range spec.Ensures {
		if mentionsDyn(cl.Expr) {
			continue // speaks about a callback result inside the callee: nothing the caller can use
		}
		env := &specEnv{c: c, vars: rn, st: c.st, old: pre, bound: map[string]Val{}, callee: callee}
		t, err := env.evalBool(cl.Expr)
		if err != nil {
			c.E.specError(c.Name+" (call to "+key+")", cl, err)
			continue
		}
		c.rfact(t)
	}
	return r
}

// havocWithAssigns: heaps in mod are havocked, but rows not named by the assigns clause and
// not fresh are preserved.
func (c *FnCtx) havocWithAssigns(spec *FuncSpec, names map[string]Val, pre map[string]string, mod map[string]bool) {
	allowed := c.assignRows(spec, names, pre)
	if mod["*"] {
		mod = map[string]bool{}
		for _, n := range c.knownHeaps() {
			mod[n] = true
		}
	}
	var ns []string
	for n := range mod {
		ns = append(ns, n)
	}
	sort.Strings(ns)
	wm := c.heapIn(pre, "$wm")
	unproven := map[string]bool{}
	if strictFrames {
		unproven = spec.frameExcepted()
	}
	for _, n := range ns {
		if n == "$wm" {
			continue
		}
		if unproven[n] {
			// the callee's frame obligation for this heap class is excepted (not proved): its assigns
			// clause says nothing here, the whole class is havocked as the static MOD analysis allows
			c.heapSort(n)
			c.havocHeap(n)
			continue
		}
		if strings.HasPrefix(n, "G|") {
			if !allowed.globals[n] {
				continue // not assigned: unchanged
			}
			c.havocHeap(n)
			continue
		}
		c.heapSort(n)
		old := c.heapIn(pre, n)
		nw := c.havocHeap(n)
		rows := allowed.rows[n]
		var ex []string
		for _, r := range rows {
			ex = append(ex, fmt.Sprintf("(not (= qr %s))", r))
		}
		cond := fmt.Sprintf("(<= qr %s)", wm)
		if len(ex) > 0 {
			cond = "(and " + cond + " " + strings.Join(ex, " ") + ")"
		}
		c.fact(fmt.Sprintf("(forall ((qr Int)) (! (=> %s (= (select %s qr) (select %s qr))) :pattern ((select %s qr))))", cond, nw, old, nw))
	}
}

type allowedSet struct {
	rows    map[string][]string // heap name -> ref terms whose rows may change
	globals map[string]bool
}

func (c *FnCtx) assignRows(spec *FuncSpec, names map[string]Val, st map[string]string) allowedSet {
	a := allowedSet{rows: map[string][]string{}, globals: map[string]bool{}}
	for _, item := range spec.Assigns {
		if strings.HasPrefix(item, "global(") {
			g := strings.TrimSuffix(strings.TrimPrefix(item, "global("), ")")
			for _, n := range c.knownHeaps() {
				if strings.HasPrefix(n, "G|") && strings.Contains(n, g+"|") {
					a.globals[n] = true
				}
			}
			continue
		}
		dot := strings.LastIndex(item, ".")
		if dot < 0 {
			continue
		}
		baseTxt, fld := item[:dot], item[dot+1:]
		ex, err := ParseSX(baseTxt)
		if err != nil {
			c.E.specErrorText(c.Name, "assigns "+item, err)
			continue
		}
		env := &specEnv{c: c, vars: names, st: st, old: st, bound: map[string]Val{}}
		bv, bt, err := env.eval(ex)
		if err != nil {
			c.E.specErrorText(c.Name, "assigns "+item, err)
			continue
		}
		if bt == nil {
			bt = bv.GT
		}
		switch bv.S {
		case SSlice:
			if st, ok := types.Unalias(bt).Underlying().(*types.Slice); ok {
				n, _ := c.M.SliceHeap(st.Elem())
				a.rows[n] = append(a.rows[n], "(s_ref "+bv.T+")")
			}
		case SInt:
			switch u := types.Unalias(bt).Underlying().(type) {
			case *types.Map:
				mn, dn, _, _, _ := c.M.MapHeaps(u)
				for _, n := range []string{mn, dn} {
					a.rows[n] = append(a.rows[n], bv.T)
				}
			case *types.Pointer:
				es := c.M.SortOf(u.Elem())
				if si := c.M.Struct(es); si != nil {
					for _, leaf := range c.E.structLeaves(si, nil) {
						if fld == "*" || si.Fields[leaf[0]].Name == fld {
							n := "HF|" + si.Name + "|" + fmtPath(leaf)
							a.rows[n] = append(a.rows[n], bv.T)
						}
					}
				} else {
					n, _ := c.M.CellHeap(u.Elem())
					a.rows[n] = append(a.rows[n], bv.T)
				}
			}
		}
	}
	return a
}

// checkWrite / checkWriteRow: per-write frame obligations are subsumed by the frame check at
// return (net effect); kept as hooks.
func (c *FnCtx) checkWrite(pl *Place, pos token.Pos)           {}
func (c *FnCtx) checkWriteRow(heap, ref string, pos token.Pos) {}

// checkFrameAtReturn: every pre-existing row outside the assigns clause is unchanged at return.
func (c *FnCtx) checkFrameAtReturn(r retInfo, ri int) {
	if len(c.Spec.belowParams()) > 0 {
		// callers havoc per the static MOD analysis; the frame inside the trees below the arguments is the
		// stated sep assumption
		return
	}
	allowed := c.assignRows(c.Spec, c.params, c.entry)
	wm := c.heapIn(c.entry, "$wm")
	for _, n := range c.knownHeaps() {
		if n == "$wm" {
			continue
		}
		cur := c.heapIn(r.State, n)
		old := c.heapIn(c.entry, n)
		if cur == old {
			continue
		}
		if len(c.Spec.belowParams()) > 0 && isAnyTreeHeap(n) {
			continue // frame inside the any-trees below the arguments is assumed (sep), not checked
		}
		if mi := c.E.rawModInfo(c.F).closed(); !mi.Exist["*"] && !mi.Exist[n] {
			continue // by the static MOD analysis only objects allocated during the call are written in this heap
		}
		var cond string
		if strings.HasPrefix(n, "G|") {
			if allowed.globals[n] {
				continue
			}
			cond = fmt.Sprintf("(= %s %s)", cur, old)
		} else {
			var ex []string
			for _, row := range allowed.rows[n] {
				ex = append(ex, fmt.Sprintf("(not (= qr %s))", row))
			}
			pre := fmt.Sprintf("(and (<= 1 qr) (<= qr %s)", wm)
			if len(ex) > 0 {
				pre += " " + strings.Join(ex, " ")
			}
			pre += ")"
			cond = fmt.Sprintf("(forall ((qr Int)) (=> %s (= (select %s qr) (select %s qr))))", pre, cur, old)
		}
		o := c.obligeAt(r.Block, r.Guard, "frame", cond, fmt.Sprintf("%s/ret%d", n, ri+1))
		o.Props = c.Spec.propsList()
	}
}

func (s *FuncSpec) propsList() []string {
	var r []string
	for p := range s.Props {
		r = append(r, p)
	}
	sort.Strings(r)
	return r
}

// ---------- inlining of small leaf helpers ----------

func (c *FnCtx) tryInline(callee *ssa.Function, bindings, args []Val, resType types.Type, pos token.Pos) (Val, bool) {
	return c.tryInlineBody(callee, bindings, args, resType)
}

// ---------- builtins ----------

func (c *FnCtx) builtin(name string, cc *ssa.CallCommon, args []Val, resType types.Type, pos token.Pos) Val {
	switch name {
	case "len":
		a := args[0]
		switch a.S {
		case SStr:
			return Val{T: "(slen " + a.T + ")", S: SInt}
		case SSlice:
			return Val{T: "(s_len " + a.T + ")", S: SInt}
		case SInt:
			if mt, ok := types.Unalias(cc.Args[0].Type()).Underlying().(*types.Map); ok {
				t := c.mapLen(c.st, mt, a.T)
				n := c.freshConst("len", SInt)
				c.fact(fmt.Sprintf("(and (= %s %s) (>= %s 0))", n, t, n))
				return Val{T: n, S: SInt}
			}
		}
		if at, ok := types.Unalias(cc.Args[0].Type()).Underlying().(*types.Array); ok {
			return Val{T: fmt.Sprintf("%d", at.Len()), S: SInt}
		}
		if pt, ok := types.Unalias(cc.Args[0].Type()).Underlying().(*types.Pointer); ok {
			if at, ok := types.Unalias(pt.Elem()).Underlying().(*types.Array); ok {
				return Val{T: fmt.Sprintf("%d", at.Len()), S: SInt}
			}
		}
		v := c.havocVal("len", resType)
		c.fact(fmt.Sprintf("(>= %s 0)", v.T))
		return v
	case "cap":
		if args[0].S == SSlice {
			return Val{T: "(s_cap " + args[0].T + ")", S: SInt}
		}
		v := c.havocVal("cap", resType)
		c.fact(fmt.Sprintf("(>= %s 0)", v.T))
		return v
	case "append":
		return c.appendBuiltin(cc, args, resType)
	case "copy":
		dst := args[0]
		if st, ok := types.Unalias(cc.Args[0].Type()).Underlying().(*types.Slice); ok {
			hn, es := c.M.SliceHeap(st.Elem())
			row := c.freshConst("row", Sort("(Array Int "+string(es)+")"))
			c.setH(hn, fmt.Sprintf("(store %s (s_ref %s) %s)", c.H(hn), dst.T, row))
			c.note("copy(): destination row havocked")
		}
		v := c.havocVal("copied", resType)
		c.fact(fmt.Sprintf("(>= %s 0)", v.T))
		return v
	case "delete":
		m, k := args[0], args[1]
		mn, dn, _, _, _ := c.M.MapHeaps(cc.Args[0].Type())
		c.heapSort(mn)
		// delete on nil map is a no-op
		c.setH(dn, fmt.Sprintf("(ite (= %s 0) %s (store %s %s (store (select %s %s) %s false)))", m.T, c.H(dn), c.H(dn), m.T, c.H(dn), m.T, k.T))
		return Val{S: "Tuple"}
	case "print", "println":
		return Val{S: "Tuple"}
	case "panic":
		c.oblige("panic", "false", "explicit panic reachable", pos)
		return Val{S: "Tuple"}
	case "min", "max":
		if len(args) == 2 && args[0].S == SInt {
			op := "<="
			if name == "max" {
				op = ">="
			}
			return Val{T: fmt.Sprintf("(ite (%s %s %s) %s %s)", op, args[0].T, args[1].T, args[0].T, args[1].T), S: SInt}
		}
	case "clear":
		if mt, ok := types.Unalias(cc.Args[0].Type()).Underlying().(*types.Map); ok {
			_, dn, ks, _, _ := c.M.MapHeaps(mt)
			c.setH(dn, fmt.Sprintf("(ite (= %s 0) %s (store %s %s ((as const (Array %s Bool)) false)))", args[0].T, c.H(dn), c.H(dn), args[0].T, ks))
			return Val{S: "Tuple"}
		}
	case "close":
		return Val{S: "Tuple"}
	case "recover":
		c.note("recover: not modelled")
		return c.havocVal("recover", resType)
	case "ssa:wrapnilchk":
		c.oblige("nilderef", fmt.Sprintf("(not (= %s 0))", args[0].T), "method value on nil", pos)
		return args[0]
	}
	c.note("builtin " + name + " havoc")
	return c.havocVal("bi", resType)
}

func (c *FnCtx) appendBuiltin(cc *ssa.CallCommon, args []Val, resType types.Type) Val {
	s, t := args[0], args[1]
	var es Sort
	var hn string
	if st, ok := types.Unalias(resType).Underlying().(*types.Slice); ok {
		hn, es = c.M.SliceHeap(st.Elem())
	} else {
		return c.havocVal("append", resType)
	}
	rowS := Sort("(Array Int " + string(es) + ")")
	h := c.H(hn)
	var n string // number of appended elements
	var srcElem func(j string) string
	if t.S == SStr {
		// append([]byte, string...)
		n = "(slen " + t.T + ")"
		srcElem = func(j string) string { return fmt.Sprintf("(sat %s %s)", t.T, j) }
	} else {
		n = "(s_len " + t.T + ")"
		srcElem = func(j string) string {
			return fmt.Sprintf("(select (select %s (s_ref %s)) (+ (s_off %s) %s))", h, t.T, t.T, j)
		}
	}
	grow := c.freshConst("grow", SBool)
	fresh := c.allocRef("appref")
	newcap := c.freshConst("newcap", SInt)
	newlen := fmt.Sprintf("(+ (s_len %s) %s)", s.T, n)
	c.fact(fmt.Sprintf("(=> (> %s (s_cap %s)) %s)", newlen, s.T, grow))
	c.fact(fmt.Sprintf("(=> (= (s_ref %s) 0) %s)", s.T, grow))
	c.fact(fmt.Sprintf("(>= %s %s)", newcap, newlen))
	// when nothing is appended to a nil slice the result stays nil (Go semantics: append(nil) == nil)
	res := c.freshConst("app", SSlice)
	c.fact(fmt.Sprintf("(= %s (ite (and (= (s_ref %s) 0) (= %s 0)) %s (ite %s (mk_slice %s 0 %s %s) (mk_slice (s_ref %s) (s_off %s) %s (s_cap %s)))))",
		res, s.T, n, s.T, grow, fresh, newlen, newcap, s.T, s.T, newlen, s.T))
	row := c.freshConst("approw", rowS)
	// contents: prefix copied (or kept), appended elements written
	c.fact(fmt.Sprintf("(forall ((j Int)) (! (=> (and (<= 0 j) (< j (s_len %s))) (= (select %s (+ (s_off %s) j)) (select (select %s (s_ref %s)) (+ (s_off %s) j)))) :pattern ((select %s (+ (s_off %s) j)))))",
		s.T, row, res, h, s.T, s.T, row, res))
	c.fact(fmt.Sprintf("(forall ((j Int)) (! (=> (and (<= 0 j) (< j %s)) (= (select %s (+ (s_off %s) (s_len %s) j)) %s)) :pattern ((select %s (+ (s_off %s) (s_len %s) j)))))",
		n, row, res, s.T, srcElem("j"), row, res, s.T))
	// in-place case: cells outside the written window keep their content
	c.fact(fmt.Sprintf("(=> (not %s) (forall ((j Int)) (! (=> (or (< j (+ (s_off %s) (s_len %s))) (>= j (+ (s_off %s) %s))) (= (select %s j) (select (select %s (s_ref %s)) j))) :pattern ((select %s j)))))",
		grow, s.T, s.T, s.T, newlen, row, h, s.T, row))
	c.setH(hn, fmt.Sprintf("(ite (= (s_ref %s) 0) %s (store %s (s_ref %s) %s))", res, h, h, res, row))
	c.sliceFacts(res)
	return Val{T: res, S: SSlice, GT: resType}
}

// ---------- generic externals ----------

var purePkgs = map[string]bool{
	"strings": true, "strconv": true, "unicode": true, "unicode/utf8": true, "path": true, "path/filepath": true,
	"fmt": true, "errors": true, "regexp": true, "math": true, "net": true, "net/url": true, "time": true, "bytes": true,
	"github.com/pkg/errors": true, "github.com/docker/go-units": true, "github.com/mattn/go-shellwords": true,
	"github.com/docker/go-connections/nat": true, "github.com/distribution/reference": true, "github.com/opencontainers/go-digest": true,
	"os": true, "io": true, "io/fs": true, "github.com/sirupsen/logrus": true, "cmp": true, "slices": true, "maps": true,
	"golang.org/x/exp/slices": true, "golang.org/x/exp/maps": true, "reflect": true, "encoding/json": true, "sort": true,
	"context": true, "sync": true, "golang.org/x/sync/errgroup": true, "runtime": true, "text/template": true,
	"github.com/xeipuuv/gojsonschema": true, "github.com/go-viper/mapstructure/v2": true, "github.com/mitchellh/copystructure": true,
	"gopkg.in/yaml.v3": true, "golang.org/x/text/unicode/norm": true, "github.com/google/go-cmp/cmp": true,
}

// externals that write through their arguments
var externWritesArgs = map[string]bool{
	"sort": true, "slices": true, "golang.org/x/exp/slices": true, "encoding/json": true, "gopkg.in/yaml.v3": true,
	"github.com/go-viper/mapstructure/v2": true, "io": true, "bytes": true, "sync": true, "golang.org/x/sync/errgroup": true,
	"text/template": true, "maps": true, "golang.org/x/exp/maps": true, "reflect": true, "os": true,
}

func pkgPathOf(f *ssa.Function) string {
	if o := f.Origin(); o != nil {
		f = o
	}
	if f.Pkg != nil {
		return f.Pkg.Pkg.Path()
	}
	if recv := f.Signature.Recv(); recv != nil {
		if n, ok := derefNamed(recv.Type()); ok && n.Obj().Pkg() != nil {
			return n.Obj().Pkg().Path()
		}
	}
	if f.Object() != nil && f.Object().Pkg() != nil {
		return f.Object().Pkg().Path()
	}
	if p := f.Parent(); p != nil {
		return pkgPathOf(p)
	}
	return ""
}

func isScalarSort(s Sort, t types.Type) bool {
	switch s {
	case SBool, SStr, SFloat:
		return true
	case SInt:
		switch types.Unalias(t).Underlying().(type) {
		case *types.Basic:
			return true
		}
	}
	return false
}

func (c *FnCtx) genericExtern(callee *ssa.Function, args []Val, resType types.Type, pos token.Pos) Val {
	pp := pkgPathOf(callee)
	name := externName(callee)
	sig := callee.Signature
	if purePkgs[pp] {
		// deterministic uninterpreted results when the whole signature is scalar
		allScalar := true
		var asorts []Sort
		var aterms []string
		params := callee.Params
		for i, p := range params {
			if i >= len(args) {
				allScalar = false
				break
			}
			s := c.M.SortOf(p.Type())
			if !isScalarSort(s, p.Type()) {
				// immutable receivers (*regexp.Regexp) are fine as plain refs
				if i == 0 && sig.Recv() != nil && pp == "regexp" {
					asorts = append(asorts, SInt)
					aterms = append(aterms, orZero(args[i].T))
					continue
				}
				allScalar = false
				break
			}
			asorts = append(asorts, s)
			aterms = append(aterms, args[i].T)
		}
		if pp == "os" || pp == "time" && strings.Contains(name, "Now") || pp == "io" || pp == "runtime" {
			allScalar = false // environment-dependent
		}
		if externWritesArgs[pp] {
			// may write through slice/pointer arguments: havoc those heaps
			for i, p := range params {
				if i < len(args) {
					c.havocReachable(p.Type(), args[i])
				}
			}
		}
		res := sig.Results()
		if allScalar && res.Len() > 0 {
			var out []Val
			base := "ext_" + mangle(name)
			for i := 0; i < res.Len(); i++ {
				rt := res.At(i).Type()
				rs := c.M.SortOf(rt)
				fn := fmt.Sprintf("%s_%d", base, i)
				app := fn
				if len(aterms) > 0 {
					app = "(" + fn + " " + strings.Join(aterms, " ") + ")"
				}
				switch {
				case isErrorType(rt):
					c.declareFun(fn, asorts, SBool)
					c.E.extSigs[fn] = builtinSig{asorts, SBool}
					c.declareFun(fn+"_id", asorts, SInt)
					idapp := fn + "_id"
					if len(aterms) > 0 {
						idapp = "(" + fn + "_id " + strings.Join(aterms, " ") + ")"
					}
					e := c.freshConst("err", SAny)
					c.fact(fmt.Sprintf("(= %s (ite %s a_nil (a_other %d %s)))", e, app, c.M.TypeID(rt), idapp))
					out = append(out, Val{T: e, S: SAny, GT: rt})
				case isScalarSort(rs, rt):
					c.declareFun(fn, asorts, rs)
					c.E.extSigs[fn] = builtinSig{asorts, rs}
					n := c.freshConst("x_"+mangle(callee.Name()), rs)
					c.fact(fmt.Sprintf("(= %s %s)", n, app))
					c.typeFacts(n, rt)
					out = append(out, Val{T: n, S: rs, GT: rt})
				default:
					out = append(out, c.havocVal("x_"+mangle(callee.Name()), rt))
				}
			}
			if len(out) == 1 {
				return out[0]
			}
			return Val{S: "Tuple", Tup: out}
		}
		rv := c.havocVal("x_"+mangle(callee.Name()), resType)
		c.errConvention(callee, rv)
		return rv
	}
	c.havocAll("call to unmodelled external " + name)
	return c.havocVal("x_"+mangle(callee.Name()), resType)
}

func orZero(s string) string {
	if s == "" {
		return "0"
	}
	return s
}

// havocReachable: an external callee may write through this argument
func (c *FnCtx) havocReachable(t types.Type, v Val) {
	switch u := types.Unalias(t).Underlying().(type) {
	case *types.Slice:
		hn, es := c.M.SliceHeap(u.Elem())
		if v.T != "" {
			row := c.freshConst("row", Sort("(Array Int "+string(es)+")"))
			c.setH(hn, fmt.Sprintf("(store %s (s_ref %s) %s)", c.H(hn), v.T, row))
		}
	case *types.Pointer:
		es := c.M.SortOf(u.Elem())
		if si := c.M.Struct(es); si != nil {
			for _, leaf := range c.E.structLeaves(si, nil) {
				hn := "HF|" + si.Name + "|" + fmtPath(leaf)
				c.heapSort(hn)
				c.havocHeap(hn)
			}
		} else if v.Place == nil {
			hn, _ := c.M.CellHeap(u.Elem())
			c.heapSort(hn)
			c.havocHeap(hn)
		} else {
			c.storePlace(v.Place, c.freshConst("ext", v.Place.Sort))
		}
	case *types.Map:
		mn, dn, _, _, _ := c.M.MapHeaps(u)
		c.heapSort(mn)
		c.heapSort(dn)
		c.havocHeap(mn)
		c.havocHeap(dn)
	case *types.Interface:
		// an interface argument may wrap a pointer/map/slice: havoc everything
		c.havocAll("external may write through interface argument")
	}
}

// errConvention: ASSUMED for constructors of the standard library and dependencies with
// results (T, error): err == nil ==> the T result is non-nil (pointer or interface).
func (c *FnCtx) errConvention(callee *ssa.Function, rv Val) {
	res := callee.Signature.Results()
	if res.Len() != 2 || !isErrorType(res.At(1).Type()) || len(rv.Tup) != 2 {
		return
	}
	switch types.Unalias(res.At(0).Type()).Underlying().(type) {
	case *types.Pointer:
		c.fact(fmt.Sprintf("(=> (= %s a_nil) (not (= %s 0)))", rv.Tup[1].T, rv.Tup[0].T))
	case *types.Interface:
		c.fact(fmt.Sprintf("(=> (= %s a_nil) (not (= %s a_nil)))", rv.Tup[1].T, rv.Tup[0].T))
	default:
		return
	}
	c.usedExtern("convention: (T, error) result of " + externName(callee) + " is non-nil when err == nil")
}

// belowParams: parameter names listed as below(x) in the assigns clause
// strictFrames: callers ignore an assigns/pure clause for the heap classes whose frame obligation is excepted
// (not proved) in the callee and havoc the whole class instead. On by default since every frame obligation of
// the reference tree is proved (frame() loop invariants); GOVC_LAX_FRAMES=1 restores the older behaviour, in
// which such a clause is an ASSUMED contract at the callers, reported in the evidence (coverage.assumed_frames).
var strictFrames = os.Getenv("GOVC_LAX_FRAMES") == ""

// frameExcepted: heap classes whose frame obligation is listed in an except clause of the contract
func (s *FuncSpec) frameExcepted() map[string]bool {
	r := map[string]bool{}
	for _, x := range s.Except {
		x = strings.TrimSpace(x)
		if strings.HasPrefix(x, "frame[") {
			h := strings.TrimSuffix(strings.TrimPrefix(x, "frame["), "]")
			if i := strings.LastIndex(h, "/ret"); i >= 0 {
				h = h[:i]
			}
			r[h] = true
		}
	}
	return r
}

func (s *FuncSpec) belowParams() []string {
	var r []string
	for _, a := range s.Assigns {
		if strings.HasPrefix(a, "below(") && strings.HasSuffix(a, ")") {
			r = append(r, strings.TrimSpace(a[6:len(a)-1]))
		}
	}
	return r
}

// havocBelow: the callee writes only objects at or below the named any-tree arguments.
// ASSUMPTION (sep): any-trees are acyclic and unshared and the trees passed as different
// arguments are disjoint, so the containers from which an argument was loaded keep their rows.
func (c *FnCtx) havocBelow(callee *ssa.Function, below []string, cc *ssa.CallCommon, mi *ModInfo, key string) {
	c.E.usedExtern(c.Name, "sep: any-trees are acyclic, unshared, and distinct arguments are disjoint trees (frame of "+key+")")
	var anc []Val
	for i, p := range callee.Params {
		for _, b := range below {
			if p.Name() == b && i < len(cc.Args) {
				anc = append(anc, c.ancestors(cc.Args[i])...)
			}
		}
	}
	pre := copyState(c.st)
	c.havocMod(mi.Exist, mi.Fresh, "call "+key)
	if mi.Exist["*"] {
		return
	}
	seen := map[string]bool{}
	for _, a := range anc {
		if a.T == "" || a.GT == nil {
			continue
		}
		switch u := types.Unalias(a.GT).Underlying().(type) {
		case *types.Map:
			mn, dn, _, _, _ := c.M.MapHeaps(u)
			for _, h := range []string{mn, dn} {
				if mi.Exist[h] && !seen[h+a.T] {
					seen[h+a.T] = true
					c.fact(fmt.Sprintf("(= (select %s %s) (select %s %s))", c.H(h), a.T, c.heapIn(pre, h), a.T))
				}
			}
		case *types.Slice:
			h, _ := c.M.SliceHeap(u.Elem())
			if mi.Exist[h] && !seen[h+a.T] {
				seen[h+a.T] = true
				c.fact(fmt.Sprintf("(= (select %s (s_ref %s)) (select %s (s_ref %s)))", c.H(h), a.T, c.heapIn(pre, h), a.T))
			}
		}
	}
}

func isAnyTreeHeap(n string) bool {
	for _, p := range []string{"M|Str|Any|", "D|Str|Any|", "S|Any|", "M|Any|Any|", "D|Any|Any|"} {
		if strings.HasPrefix(n, p) {
			return true
		}
	}
	return false
}

// preRegisterExterns: signatures of the uninterpreted symbols of scalar-signature externals, so that
// contracts can mention them (e.g. ext_path_filepath_IsAbs_0) independently of translation order.
func (e *Engine) preRegisterExterns() {
	for fn := range e.allFuncs {
		if !e.inRepo(fn) {
			continue
		}
		for _, b := range fn.Blocks {
			for _, ins := range b.Instrs {
				cl, ok := ins.(*ssa.Call)
				if !ok {
					continue
				}
				callee := cl.Call.StaticCallee()
				if callee == nil || e.inRepo(callee) {
					continue
				}
				e.registerExtern(callee)
			}
		}
	}
	// externals the contract files name (ext_<pkg>_<Func>_<i>) stay known when the code stops calling them:
	// a clause such as "result == strconv.Atoi(value)" then FAILS on changed code instead of becoming a spec error
	want := map[string]bool{}
	re := regexp.MustCompile(`ext_[A-Za-z0-9_]+_[0-9]+`)
	raw, _ := filepath.Glob(filepath.Join(e.RepoDir, "*", "verif_contracts*.go"))
	for _, f := range raw {
		b, err := os.ReadFile(f)
		if err != nil {
			continue
		}
		for _, tok := range re.FindAllString(string(b), -1) {
			if _, ok := e.extSigs[tok]; !ok {
				want[tok[:strings.LastIndex(tok, "_")]] = true
			}
		}
	}
	if len(want) > 0 {
		for fn := range e.allFuncs {
			if e.inRepo(fn) || fn.Parent() != nil || fn.Origin() != nil {
				continue
			}
			if want["ext_"+mangle(externName(fn))] {
				e.registerExtern(fn)
			}
		}
	}
}

func (e *Engine) registerExtern(callee *ssa.Function) {
	pp := pkgPathOf(callee)
	if !purePkgs[pp] || pp == "os" || pp == "io" || pp == "runtime" {
		return
	}
	if _, modelled := externModels[externName(callee)]; modelled {
		return
	}
	sig := callee.Signature
	var asorts []Sort
	for i, p := range callee.Params {
		s := e.Model.SortOf(p.Type())
		if !isScalarSort(s, p.Type()) {
			if i == 0 && sig.Recv() != nil && pp == "regexp" {
				asorts = append(asorts, SInt)
				continue
			}
			return
		}
		asorts = append(asorts, s)
	}
	if sig.Results().Len() == 0 {
		return
	}
	base := "ext_" + mangle(externName(callee))
	for i := 0; i < sig.Results().Len(); i++ {
		rt := sig.Results().At(i).Type()
		rs := e.Model.SortOf(rt)
		fnn := fmt.Sprintf("%s_%d", base, i)
		switch {
		case isErrorType(rt):
			e.extSigs[fnn] = builtinSig{asorts, SBool}
		case isScalarSort(rs, rt):
			e.extSigs[fnn] = builtinSig{asorts, rs}
		}
	}
}

// establishedAtCreation: the requires clause of a closure mentions captured variables only, each of them
// is written exactly once in the enclosing function before the closure is made and never by a closure,
// and the enclosing function is under contract (so the closure-precondition obligation is checked).
func (e *Engine) establishedAtCreation(callee *ssa.Function, cl *Clause) bool {
	parent := callee.Parent()
	if parent == nil || e.Specs.Funcs[fnKey(parent)] == nil {
		return false
	}
	names := map[string]bool{}
	var walk func(x *SX)
	walk = func(x *SX) {
		if x == nil {
			return
		}
		if x.Op == "ident" {
			names[x.Name] = true
		}
		for _, a := range x.Args {
			walk(a)
		}
	}
	walk(cl.Expr)
	for _, p := range callee.Params {
		if names[p.Name()] {
			return false
		}
	}
	if names["result"] || names["err"] {
		return false
	}
	found := 0
	for i, fv := range callee.FreeVars {
		if !names[fv.Name()] {
			continue
		}
		found++
		if !e.freeVarReadOnly(fv, 0) {
			return false
		}
		// every creation site in the parent binds an Alloc written once, before the closure is made
		sites := 0
		for _, b := range parent.Blocks {
			for _, in := range b.Instrs {
				mc, ok := in.(*ssa.MakeClosure)
				if !ok || mc.Fn != ssa.Value(callee) || i >= len(mc.Bindings) {
					continue
				}
				sites++
				al, ok := mc.Bindings[i].(*ssa.Alloc)
				if !ok || !e.writtenOnceBefore(al, mc) {
					return false
				}
			}
		}
		if sites == 0 {
			return false
		}
	}
	return found > 0
}

func (e *Engine) writtenOnceBefore(al *ssa.Alloc, mc *ssa.MakeClosure) bool {
	refs := al.Referrers()
	if refs == nil {
		return false
	}
	stores := 0
	for _, r := range *refs {
		switch x := r.(type) {
		case *ssa.DebugRef, *ssa.UnOp:
		case *ssa.Store:
			if x.Addr != ssa.Value(al) {
				return false
			}
			stores++
			if !(x.Block() == mc.Block() && instrIndex(x) < instrIndex(mc)) && !x.Block().Dominates(mc.Block()) {
				return false
			}
			if x.Block() != mc.Block() && x.Block() == al.Block() && false {
				return false
			}
		case *ssa.MakeClosure:
			fn := x.Fn.(*ssa.Function)
			for i, b := range x.Bindings {
				if b == ssa.Value(al) {
					if i >= len(fn.FreeVars) || !e.freeVarReadOnly(fn.FreeVars[i], 0) {
						return false
					}
				}
			}
		default:
			return false
		}
	}
	// an Alloc inside a loop is a new cell per iteration, so one dominating store is one write per cell
	return stores == 1
}

func instrIndex(in ssa.Instruction) int {
	for i, x := range in.Block().Instrs {
		if x == in {
			return i
		}
	}
	return -1
}

// callsiteObligations: ghost assertions of the current function's contract at calls of the named callee
func (c *FnCtx) callsiteObligations(callee *ssa.Function, bindings, args []Val, pos token.Pos) {
	c.callsiteObligationsNamed(fnKey(callee), externName(callee), callee, bindings, args, pos)
}

// pseudo callees: "make(chan)" with arg0 = the buffer size
func (c *FnCtx) callsiteObligationsNamed(key, ext string, callee *ssa.Function, bindings, args []Val, pos token.Pos) {
	if c.Spec == nil || len(c.Spec.Callsites) == 0 || c.inl != nil {
		return
	}
	for i, cs := range c.Spec.Callsites {
		if cs.Callee != key && cs.Callee != ext {
			continue
		}
		if c.callsiteHit == nil {
			c.callsiteHit = map[int]bool{}
		}
		c.callsiteHit[i] = true
		names := map[string]Val{}
		for n, v := range c.params {
			names[n] = v
			if !strings.HasPrefix(n, "&") {
				names["caller_"+n] = v // the callee's parameter names shadow the caller's
			}
		}
		c.localNamesBefore(pos, names)
		if callee != nil {
			for n, v := range c.calleeEnv(callee, bindings, args) {
				names[n] = v
			}
		}
		for j, a := range args {
			if a.GT == nil && callee != nil && j < len(callee.Params) {
				a.GT = callee.Params[j].Type()
			}
			names[fmt.Sprintf("arg%d", j)] = a
		}
		env := &specEnv{c: c, vars: names, st: c.st, old: c.entry, bound: map[string]Val{}}
		t, err := env.evalBool(cs.Cl.Expr)
		if err != nil {
			c.E.specError(c.Name+" (callsite "+cs.Callee+")", cs.Cl, err)
			continue
		}
		o := c.oblige("callsite", t, fmt.Sprintf("%s/c%d", cs.Callee, i+1), pos)
		o.Props = cs.Cl.Props
	}
}

func mentionsDyn(x *SX) bool {
	if x == nil {
		return false
	}
	if x.Op == "ident" && len(x.Name) > 3 && strings.HasPrefix(x.Name, "dyn") && x.Name[3] >= '0' && x.Name[3] <= '9' {
		return true
	}
	if x.Op == "ident" && strings.HasPrefix(x.Name, "res_") {
		return true
	}
	for _, a := range x.Args {
		if mentionsDyn(a) {
			return true
		}
	}
	return false
}

// localNamesBefore: source-level local variables (from DebugRefs) as they are bound just before the
// instruction at pos in the current block: definitions in strictly dominating blocks, then the ones
// earlier in this block (later wins). Used by ghost assertions only.
func (c *FnCtx) localNamesBefore(pos token.Pos, names map[string]Val) {
	cur := c.F.Blocks[c.curBlk]
	take := func(d *ssa.DebugRef) {
		id, ok := d.Expr.(*ast.Ident)
		if !ok || d.IsAddr {
			return
		}
		if v, ok := c.vals[d.X]; ok {
			if v.GT == nil {
				v.GT = d.X.Type()
			}
			if _, isParam := c.params[id.Name]; isParam {
				names["caller_"+id.Name] = c.params[id.Name]
			}
			names[id.Name] = v
		}
	}
	for _, b := range c.order {
		if b == cur || !b.Dominates(cur) {
			continue
		}
		for _, ins := range b.Instrs {
			if d, ok := ins.(*ssa.DebugRef); ok {
				take(d)
			}
		}
	}
	for _, ins := range cur.Instrs {
		if _, isDbg := ins.(*ssa.DebugRef); !isDbg && pos.IsValid() && ins.Pos() == pos {
			break
		}
		if d, ok := ins.(*ssa.DebugRef); ok {
			take(d)
		}
	}
}
