#!/usr/bin/env python3
# modelquery.py — run z3 (python API) on a quantifier-stripped obligation script and decode a
# candidate counterexample for the function's parameters. The model is only a CANDIDATE (axioms
# with quantifiers were dropped): it is trusted only if the replay on the real code reproduces.
# stdin: JSON {"script": smt2 text, "roots": [{"name","term","kind"}], "heaps": {heapname: term}}
# stdout: JSON {"status": "sat|unsat|unknown", "values": {name: concrete}}
import sys, json

try:
    import z3
except Exception as e:  # pragma: no cover
    print(json.dumps({"status": "error", "error": "z3 python API unavailable: %s" % e}))
    sys.exit(0)

req = json.load(sys.stdin)
script = req["script"]
roots = req["roots"]
heaps = req.get("heaps", {})

# give every root/heap term a name so it can be found after parsing
extra = []
names = {}
def bind(label, term, sort):
    n = "mq!%d" % len(names)
    names[label] = n
    extra.append("(declare-const %s %s)\n(assert (= %s %s))" % (n, sort, n, term))

body = script.replace("(check-sat)", "")
for r in roots:
    bind("root:" + r["name"], r["term"], r["sort"])
for hn, h in heaps.items():
    bind("heap:" + hn, h["term"], h["sort"])
# helper function symbols we need handles for: declare probes
probe = """
(declare-const mq!s Str)
(declare-const mq!i Int)
(declare-const mq!slen Int)
(assert (= mq!slen (slen mq!s)))
(declare-const mq!sat Int)
(assert (= mq!sat (sat mq!s mq!i)))
"""
full = body + "\n".join(extra) + probe
s = z3.Solver()
s.set("timeout", 8000)
try:
    s.from_string(full)
except Exception as e:
    print(json.dumps({"status": "error", "error": "parse: %s" % str(e)[:300]}))
    sys.exit(0)
res = s.check()
if res != z3.sat:
    print(json.dumps({"status": str(res)}))
    sys.exit(0)
m = s.model()

consts = {}
funcs = {}
for d in m.decls():
    if d.arity() == 0:
        consts[d.name()] = d
    else:
        funcs[d.name()] = d
# function symbols appear in the assertions even if the model does not list them
def find_decls():
    seen = {}
    stack = list(s.assertions())
    visited = set()
    while stack:
        e = stack.pop()
        if e.get_id() in visited:
            continue
        visited.add(e.get_id())
        if z3.is_app(e):
            d = e.decl()
            if d.arity() > 0 and d.kind() == z3.Z3_OP_UNINTERPRETED:
                seen[d.name()] = d
            stack.extend(e.children())
        elif z3.is_quantifier(e):
            stack.append(e.body())
    return seen
fdecls = find_decls()
fdecls.update(funcs)

def C(name):
    d = consts.get(name)
    if d is None:
        return None
    return d()

def ev(e):
    return m.eval(e, model_completion=True)

def root_expr(label):
    n = names[label]
    for a in s.assertions():
        pass
    # constants declared in the script are reachable through the model or by scanning assertions
    d = consts.get(n)
    if d is not None:
        return d()
    # scan assertions for the constant
    stack = list(s.assertions())
    visited = set()
    while stack:
        e = stack.pop()
        if e.get_id() in visited:
            continue
        visited.add(e.get_id())
        if z3.is_const(e) and e.decl().kind() == z3.Z3_OP_UNINTERPRETED and e.decl().name() == n:
            return e
        if z3.is_app(e):
            stack.extend(e.children())
    return None

slen_f = fdecls.get("slen")
sat_f = fdecls.get("sat")

def dec_int(e):
    v = ev(e)
    try:
        return v.as_long()
    except Exception:
        return 0

def dec_bool(e):
    return z3.is_true(ev(e))

def dec_str(e, cap=48):
    if slen_f is None:
        return []
    n = dec_int(slen_f(e))
    n = max(0, min(n, cap))
    out = []
    for i in range(n):
        b = dec_int(sat_f(e, z3.IntVal(i))) if sat_f is not None else 120
        if b < 0 or b > 255:
            b = 120
        out.append(b)
    return out

def array_entries(arr, limit=6):
    """decode a finite set of (index, value) pairs of an array model value"""
    out = []
    a = ev(arr)
    for _ in range(64):
        if z3.is_store(a):
            base, idx, val = a.children()
            out.append((idx, val))
            a = base
        else:
            break
    if z3.is_as_array(a):
        f = z3.get_as_array_func(a)
        fi = m[f]
        if fi is not None:
            for ent in fi.as_list()[:-1]:
                out.append((ent[0], ent[1]))
    seen = set()
    res = []
    for idx, val in out:
        k = str(idx)
        if k in seen:
            continue
        seen.add(k)
        res.append((idx, val))
        if len(res) >= limit:
            break
    return res

def heap(hn):
    lab = "heap:" + hn
    if lab not in names:
        return None
    return root_expr(lab)

def find_heap(prefix):
    for hn in heaps:
        if hn.startswith(prefix):
            return hn
    return None

def accessor(sort, name):
    for i in range(sort.num_constructors()):
        for j in range(sort.constructor(i).arity()):
            if sort.accessor(i, j).name() == name:
                return sort.accessor(i, j)
    return None

def dec_slice(e, elem_kind, depth):
    S = e.sort()
    ref = dec_int(accessor(S, "s_ref")(e))
    off = dec_int(accessor(S, "s_off")(e))
    ln = max(0, min(dec_int(accessor(S, "s_len")(e)), 5))
    if ref == 0:
        return None
    hn = find_heap({"any": "S|Any|", "str": "S|Str|", "int": "S|Int|"}.get(elem_kind, "S|Any|"))
    out = []
    h = heap(hn) if hn else None
    for i in range(ln):
        if h is None:
            out.append(dec_default(elem_kind))
            continue
        el = z3.Select(z3.Select(h, z3.IntVal(ref)), z3.IntVal(off + i))
        out.append(dec_kind(el, elem_kind, depth - 1))
    return out

def dec_default(kind):
    return {"str": [], "int": 0, "any": {"t": "nil"}, "bool": False}.get(kind, None)

def dec_map(refexpr, vkind, depth):
    ref = dec_int(refexpr)
    if ref == 0:
        return None
    pre = {"any": "Str|Any|", "str": "Str|Str|"}.get(vkind, "Str|Any|")
    dn = find_heap("D|" + pre)
    mn = find_heap("M|" + pre)
    if dn is None or mn is None or depth <= 0:
        return []
    D = heap(dn)
    M = heap(mn)
    ents = []
    for k, v in array_entries(z3.Select(D, z3.IntVal(ref))):
        if not z3.is_true(ev(v)):
            continue
        val = z3.Select(z3.Select(M, z3.IntVal(ref)), k)
        ents.append([dec_str(k), dec_kind(val, vkind, depth - 1)])
    return ents

def dec_any(e, depth):
    A = e.sort()
    v = ev(e)
    d = v.decl().name() if z3.is_app(v) else "a_nil"
    if d == "a_nil":
        return {"t": "nil"}
    if d == "a_bool":
        return {"t": "bool", "v": z3.is_true(v.arg(0))}
    if d == "a_int":
        return {"t": "int", "v": dec_int(v.arg(0))}
    if d == "a_float":
        return {"t": "float"}
    if d == "a_str":
        return {"t": "str", "v": dec_str(v.arg(0))}
    if d == "a_map":
        return {"t": "map", "v": dec_map(v.arg(0), "any", depth)}
    if d == "a_mapaa":
        return {"t": "mapaa"}
    if d == "a_list":
        return {"t": "list", "v": dec_slice(v.arg(0), "any", depth)}
    return {"t": "other", "ty": dec_int(v.arg(0))}

def dec_kind(e, kind, depth=3):
    if kind == "int":
        return dec_int(e)
    if kind == "bool":
        return dec_bool(e)
    if kind == "str":
        return dec_str(e)
    if kind == "any":
        return dec_any(e, depth)
    if kind.startswith("slice:"):
        return dec_slice(e, kind[6:], depth)
    if kind.startswith("map:"):
        return dec_map(e, kind[4:], depth)
    return None

values = {}
for r in roots:
    e = root_expr("root:" + r["name"])
    if e is None:
        values[r["name"]] = None
        continue
    try:
        values[r["name"]] = dec_kind(e, r["kind"])
    except Exception as ex:
        values[r["name"]] = {"error": str(ex)[:200]}
print(json.dumps({"status": "sat", "values": values}))
