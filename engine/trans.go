package main

// trans.go — SSA function -> facts + named obligations (passive single-assignment encoding,
// loops cut at headers, heaps versioned per block).

import (
	"fmt"
	"go/constant"
	"go/token"
	"go/types"
	"hash/fnv"
	"sort"
	"strconv"
	"strings"

	"golang.org/x/tools/go/ssa"
)

// ---------- values ----------

type Val struct {
	T     string // SMT term (first-class values)
	S     Sort
	Tup   []Val  // tuple values
	Place *Place // pointer that denotes a place
	Fn    *FnVal // translation-time function value
	Iter  *IterState
	GT    types.Type // static Go type when known
	Table *TableInfo // load of a frozen rule table
	Cands []Cand     // candidate callees when the value came out of a rule table
}

type FnVal struct {
	Fn       *ssa.Function
	Bindings []Val
	Builtin  string
}

const (
	PStructPtr = iota // Burstall field heaps HF|S|path indexed by Ref
	PCell             // H|sort indexed by Ref
	PElem             // S|sort [ref][idx]
	PGlobal           // G|name
)

type Place struct {
	Kind     int
	Ref      string // base ref (PStructPtr, PCell, PElem)
	Idx      string // PElem absolute index
	Name     string // PGlobal heap name
	Heap     string // PCell / PElem: heap name
	BaseSort Sort   // PStructPtr: struct sort at Ref; others: sort of the cell
	Path     []int  // field path from the base
	Sort     Sort   // sort of the designated content
	GoType   types.Type
}

type heapParent struct{ old, wm string }

type IterState struct {
	Kind    string // "map" | "string"
	X       Val
	KeySort Sort
	ValSort Sort
	Loop    *Loop
	GoType  types.Type
}

// ---------- facts / obligations ----------

type Fact struct {
	Block int // origin block index (-1 = global)
	Seq   int // sequence within translation (program order inside a block)
	Text  string
}

type Obligation struct {
	Name   string
	Kind   string // K1 kinds: typeassert,index,slice,nilmap,nilderef,div,panic ; K2: requires,ensures,invariant-entry,invariant-preserved,decreases,assigns
	Block  int
	Seq    int
	Guard  string // reach predicate
	Cond   string
	Props  []string
	Func   string
	Pos    string
	Detail string
	Stable string // kind@<hash of the source line text>#k : survives insertions elsewhere in the function
	// results
	Status string // proved | failed | unknown
	Solver string
	TimeMS int64
	Model  string
}

type Loop struct {
	Header   *ssa.BasicBlock
	Ordinal  int // 1-based in block-index order
	Blocks   map[int]bool
	BackPred []*ssa.BasicBlock
	Mod      map[string]bool // heap names modified in loop ("*" = all)
	ModFresh map[string]bool
	ModRows  map[string][]ssa.Value // heaps written only at rows of these roots (defined outside the loop)
	ModWhole map[string]bool
	Spec     *LoopSpec
	// pseudo-phis
	SeenIn, SeenOut string // map-range ghost
	PosIn, PosOut   string // string-range ghost
	IterInstr       *ssa.Range
	HdrState        map[string]string
}

// FnCtx is the translation context of one function.
type FnCtx struct {
	wfEmitted map[string]bool // heap-wf facts already emitted for spec-level field reads
	E           *Engine
	M           *Model
	F           *ssa.Function
	Name        string
	Spec        *FuncSpec
	vals        map[ssa.Value]Val
	decls       []string
	declS       map[string]bool
	facts       []Fact
	obls        []*Obligation
	seq         int
	curBlk      int
	reach       map[int]string
	edges       map[[2]int]string
	outSt       map[int]map[string]string
	st          map[string]string // current heap state
	entry       map[string]string // heap state at function entry
	loops       map[int]*Loop     // by header index
	loopOf      map[int][]*Loop
	order       []*ssa.BasicBlock
	anc         map[int]map[int]bool // DAG ancestors
	fresh       int
	notes       map[string]bool // abstractions encountered
	kcount      map[string]int
	callsiteHit map[int]bool
	scount      map[string]int
	dynCalls    int
	resCount    map[string]int
	boxes       map[Sort]bool
	lits        map[string]string
	litSeq      []string
	ufs         map[string]bool
	retSt       []retInfo
	params      map[string]Val
	heapsUsed   map[string]Sort
	unsupported string
	props       []string // property tags for K1 obligations
	sitecount   int
	heapReads   int
	finfo       []factInfo
	funDecl     map[string]bool
	pendingHWM  []string
	hparent     map[string]heapParent // heap version made by a fresh-rows-only havoc -> previous version and the watermark then
	hwm         map[string]string     // heap version term -> watermark when that version was created
	protected   []protCell
	dbgUses     map[string][]ssa.Value
	pfx         string // name prefix for inlined bodies
	inl         *inlineCtx
	inlDepth    int
	inlStack    []*ssa.Function
}

type inlineCtx struct {
	originBlk int
}

func (c *FnCtx) originBlk() int {
	if c.inl != nil {
		return c.inl.originBlk
	}
	return c.curBlk
}

type retInfo struct {
	Block int
	Seq   int
	Guard string
	Vals  []Val
	State map[string]string
}

func (c *FnCtx) note(s string) { c.notes[s] = true }

func (c *FnCtx) newName(prefix string) string {
	c.fresh++
	return fmt.Sprintf("%s!%d", prefix, c.fresh)
}

func (c *FnCtx) declare(name string, s Sort) {
	if c.declS[name] {
		return
	}
	c.declS[name] = true
	c.decls = append(c.decls, fmt.Sprintf("(declare-const %s %s)", name, s))
}

func (c *FnCtx) declareFun(name string, args []Sort, res Sort) {
	if c.declS[name] {
		return
	}
	c.declS[name] = true
	if c.funDecl == nil {
		c.funDecl = map[string]bool{}
	}
	c.funDecl[name] = true
	var as []string
	for _, a := range args {
		as = append(as, string(a))
	}
	c.decls = append(c.decls, fmt.Sprintf("(declare-fun %s (%s) %s)", name, strings.Join(as, " "), res))
}

func (c *FnCtx) freshConst(prefix string, s Sort) string {
	n := c.newName(prefix)
	c.declare(n, s)
	return n
}

func (c *FnCtx) fact(text string) {
	c.seq++
	c.facts = append(c.facts, Fact{Block: c.originBlk(), Seq: c.seq, Text: text})
}

func (c *FnCtx) gfact(text string) {
	c.facts = append(c.facts, Fact{Block: -1, Seq: 0, Text: text})
}

// guarded fact: holds when current block is reached
func (c *FnCtx) rfact(text string) {
	c.fact(fmt.Sprintf("(=> %s %s)", c.reach[c.curBlk], text))
}

func (c *FnCtx) oblige(kind, cond, detail string, pos token.Pos) *Obligation {
	if c.inl != nil {
		return &Obligation{}
	}
	c.seq++
	c.kcount[kind]++
	name := fmt.Sprintf("%s/%s#%d", c.Name, kind, c.kcount[kind])
	if detail != "" {
		name += "[" + detail + "]"
	}
	o := &Obligation{Name: name, Kind: kind, Block: c.curBlk, Seq: c.seq, Guard: c.reach[c.curBlk], Cond: cond, Func: c.Name, Detail: detail}
	if pos.IsValid() {
		p := c.E.Fset.Position(pos)
		o.Pos = fmt.Sprintf("%s:%d", p.Filename, p.Line)
		if txt := c.E.srcLine(p.Filename, p.Line); txt != "" {
			h := fnv.New32a()
			h.Write([]byte(txt))
			key := fmt.Sprintf("%s@%06x", kind, h.Sum32()&0xffffff)
			if c.scount == nil {
				c.scount = map[string]int{}
			}
			c.scount[key]++
			o.Stable = fmt.Sprintf("%s#%d", key, c.scount[key])
		}
	}
	c.obls = append(c.obls, o)
	return o
}

// ---------- heaps ----------

func (c *FnCtx) heapSort(name string) Sort {
	if s, ok := c.heapsUsed[name]; ok {
		return s
	}
	parts := strings.Split(name, "|")
	var s Sort
	switch parts[0] {
	case "HF":
		si := c.M.Struct(Sort(parts[1]))
		fs := c.pathSort(si, parsePath(parts[2]))
		s = Sort("(Array Int " + string(fs) + ")")
	case "H":
		s = Sort("(Array Int " + parts[1] + ")")
	case "S":
		s = Sort("(Array Int (Array Int " + parts[1] + "))")
	case "M":
		s = Sort("(Array Int (Array " + parts[1] + " " + parts[2] + "))")
	case "D":
		s = Sort("(Array Int (Array " + parts[1] + " Bool))")
	case "G":
		s = Sort(parts[2])
	case "$wm":
		s = SInt
	default:
		panic("heapSort " + name)
	}
	c.heapsUsed[name] = s
	return s
}

func parsePath(s string) []int {
	if s == "" {
		return nil
	}
	var r []int
	for _, p := range strings.Split(s, ".") {
		n, _ := strconv.Atoi(p)
		r = append(r, n)
	}
	return r
}
func fmtPath(p []int) string {
	var ss []string
	for _, i := range p {
		ss = append(ss, strconv.Itoa(i))
	}
	return strings.Join(ss, ".")
}

func (c *FnCtx) pathSort(si *StructInfo, path []int) Sort {
	s := Sort(si.Name)
	for _, i := range path {
		si = c.M.Struct(s)
		s = si.Fields[i].Sort
	}
	return s
}

func heapSMTName(name string, ver string) string {
	return "h_" + mangle(name) + "@" + ver
}

// H returns the current version term of heap `name`.
func (c *FnCtx) H(name string) string {
	return c.heapIn(c.st, name)
}

func (c *FnCtx) heapIn(st map[string]string, name string) string {
	c.heapReads++
	if t, ok := st[name]; ok {
		return t
	}
	if t, ok := c.entry[name]; ok {
		return t
	}
	t := heapSMTName(name, "0")
	c.declare(t, c.heapSort(name))
	c.entry[name] = t
	if name != "$wm" && c.hwm != nil {
		c.hwm[t] = heapSMTName("$wm", "0")
	}
	if name == "$wm" {
		c.gfact(fmt.Sprintf("(>= %s 0)", t))
	}
	return t
}

func (c *FnCtx) setH(name, term string) {
	// give big terms a name to keep scripts linear
	n := heapSMTName(name, strconv.Itoa(c.freshN()))
	c.declare(n, c.heapSort(name))
	c.fact(fmt.Sprintf("(= %s %s)", n, term))
	c.st[name] = n
	if name != "$wm" && c.hwm != nil {
		c.hwm[n] = c.H("$wm")
	}
}

func (c *FnCtx) freshN() int { c.fresh++; return c.fresh }

func (c *FnCtx) havocHeap(name string) string {
	n := heapSMTName(name, strconv.Itoa(c.freshN()))
	c.declare(n, c.heapSort(name))
	if name == "$wm" {
		c.fact(fmt.Sprintf("(>= %s %s)", n, c.H(name)))
		// heap versions made by the same havoc: their contents are not younger than the new watermark
		for _, p := range c.pendingHWM {
			c.hwm[p] = n
		}
		c.pendingHWM = nil
	}
	c.st[name] = n
	if name != "$wm" && c.hwm != nil {
		c.pendingHWM = append(c.pendingHWM, n) // the watermark is havocked together with the heaps: resolved lazily
	}
	return n
}

// allHeapNames known so far in this function (for havoc-all)
func (c *FnCtx) knownHeaps() []string {
	var r []string
	for n := range c.heapsUsed {
		r = append(r, n)
	}
	sort.Strings(r)
	return r
}

func (c *FnCtx) havocAll(why string) {
	c.note("havoc-all: " + why)
	// all heaps that the function mentions anywhere (precomputed) must be havocked
	for _, n := range c.E.funcHeaps(c.F) {
		c.heapSort(n)
	}
	for _, n := range c.knownHeaps() {
		if strings.HasPrefix(n, "G|") && c.E.isConstGlobalName(n) && !c.isInit() {
			continue
		}
		if c.E.frozen[n] && !c.isInitLike() {
			continue
		}
		c.havocHeap(n)
	}
}

func (c *FnCtx) havocSet(mod map[string]bool, why string) {
	if mod["*"] {
		c.havocAll(why)
		return
	}
	var ns []string
	for n := range mod {
		ns = append(ns, n)
	}
	sort.Strings(ns)
	for _, n := range ns {
		c.heapSort(n)
		c.havocHeap(n)
	}
}

// fresh reference above the watermark
func (c *FnCtx) allocRef(prefix string) string {
	r := c.freshConst(prefix, SInt)
	wm := c.H("$wm")
	c.fact(fmt.Sprintf("(> %s %s)", r, wm))
	c.setH("$wm", r)
	return r
}

// knownRef: a ref that exists already: 0 <= r <= wm
func (c *FnCtx) refFact(t string) {
	c.fact(fmt.Sprintf("(and (>= %s 0) (<= %s %s))", t, t, c.H("$wm")))
}

func (c *FnCtx) sliceFacts(t string) {
	c.fact(fmt.Sprintf("(and (>= (s_off %s) 0) (>= (s_len %s) 0) (<= (s_len %s) (s_cap %s)) (>= (s_ref %s) 0) (<= (s_ref %s) %s) (=> (= (s_ref %s) 0) (= (s_cap %s) 0)))", t, t, t, t, t, t, c.H("$wm"), t, t))
}

// typeFacts: range facts for a value of Go type gt
func (c *FnCtx) typeFacts(t string, gt types.Type) {
	gt = types.Unalias(gt)
	switch u := gt.Underlying().(type) {
	case *types.Basic:
		if u.Info()&types.IsInteger != 0 {
			lo, hi := intRange(u)
			if lo != "" {
				c.fact(fmt.Sprintf("(and (>= %s %s) (<= %s %s))", t, lo, t, hi))
			}
		}
	case *types.Pointer, *types.Map, *types.Chan:
		c.refFact(t)
	case *types.Slice:
		c.sliceFacts(t)
	case *types.Interface:
		if u.NumMethods() > 0 {
			// a value of an interface type with methods never holds a bare map/slice/scalar
			c.fact(fmt.Sprintf("(or (= %s a_nil) ((_ is a_other) %s))", t, t))
		}
	}
}

func intRange(b *types.Basic) (string, string) {
	switch b.Kind() {
	case types.Int8:
		return "(- 128)", "127"
	case types.Int16:
		return "(- 32768)", "32767"
	case types.Int32:
		return "(- 2147483648)", "2147483647"
	case types.Int, types.Int64, types.UntypedInt:
		return "(- 9223372036854775808)", "9223372036854775807"
	case types.Uint8:
		return "0", "255"
	case types.Uint16:
		return "0", "65535"
	case types.Uint32:
		return "0", "4294967295"
	case types.Uint, types.Uint64, types.Uintptr:
		return "0", "18446744073709551615"
	}
	return "", ""
}

// ---------- places ----------

func (c *FnCtx) loadPlace(p *Place) string { return c.loadPlaceIn(c.st, p) }

func (c *FnCtx) loadPlaceIn(st map[string]string, p *Place) string {
	switch p.Kind {
	case PStructPtr:
		si := c.M.Struct(p.BaseSort)
		return c.loadStructPath(st, si, p.Ref, p.Path)
	case PCell:
		base := fmt.Sprintf("(select %s %s)", c.heapIn(st, p.Heap), p.Ref)
		return c.applyPath(base, p.BaseSort, p.Path)
	case PElem:
		base := fmt.Sprintf("(select (select %s %s) %s)", c.heapIn(st, p.Heap), p.Ref, p.Idx)
		return c.applyPath(base, p.BaseSort, p.Path)
	case PGlobal:
		base := c.heapIn(st, p.Name)
		return c.applyPath(base, p.BaseSort, p.Path)
	}
	panic("loadPlace")
}

func (c *FnCtx) applyPath(base string, s Sort, path []int) string {
	for _, i := range path {
		si := c.M.Struct(s)
		base = fmt.Sprintf("(%s %s)", si.Sel(i), base)
		s = si.Fields[i].Sort
	}
	return base
}

// loadStructPath loads the (possibly struct-valued) content at path of the struct at ref.
func (c *FnCtx) loadStructPath(st map[string]string, si *StructInfo, ref string, path []int) string {
	s := c.pathSort(si, path)
	if sub := c.M.Struct(s); sub != nil {
		if len(sub.Fields) == 0 {
			return sub.Ctor()
		}
		var b strings.Builder
		b.WriteString("(" + sub.Ctor())
		for i := range sub.Fields {
			b.WriteString(" " + c.loadStructPath(st, si, ref, append(append([]int{}, path...), i)))
		}
		b.WriteString(")")
		return b.String()
	}
	h := c.heapIn(st, "HF|"+si.Name+"|"+fmtPath(path))
	return fmt.Sprintf("(select %s %s)", h, ref)
}

func (c *FnCtx) storeStructPath(si *StructInfo, ref string, path []int, val string) {
	s := c.pathSort(si, path)
	if sub := c.M.Struct(s); sub != nil {
		for i := range sub.Fields {
			c.storeStructPath(si, ref, append(append([]int{}, path...), i), fmt.Sprintf("(%s %s)", sub.Sel(i), val))
		}
		return
	}
	hn := "HF|" + si.Name + "|" + fmtPath(path)
	c.setH(hn, fmt.Sprintf("(store %s %s %s)", c.H(hn), ref, val))
}

// updPath rebuilds a datatype value with the content at path replaced.
func (c *FnCtx) updPath(base string, s Sort, path []int, val string) string {
	if len(path) == 0 {
		return val
	}
	si := c.M.Struct(s)
	var b strings.Builder
	b.WriteString("(" + si.Ctor())
	for i, f := range si.Fields {
		cur := fmt.Sprintf("(%s %s)", si.Sel(i), base)
		if i == path[0] {
			b.WriteString(" " + c.updPath(cur, f.Sort, path[1:], val))
		} else {
			b.WriteString(" " + cur)
		}
	}
	b.WriteString(")")
	return b.String()
}

func (c *FnCtx) storePlace(p *Place, val string) {
	switch p.Kind {
	case PStructPtr:
		c.storeStructPath(c.M.Struct(p.BaseSort), p.Ref, p.Path, val)
	case PCell:
		hn := p.Heap
		old := fmt.Sprintf("(select %s %s)", c.H(hn), p.Ref)
		c.setH(hn, fmt.Sprintf("(store %s %s %s)", c.H(hn), p.Ref, c.updPath(old, p.BaseSort, p.Path, val)))
	case PElem:
		hn := p.Heap
		row := fmt.Sprintf("(select %s %s)", c.H(hn), p.Ref)
		old := fmt.Sprintf("(select %s %s)", row, p.Idx)
		c.setH(hn, fmt.Sprintf("(store %s %s (store %s %s %s))", c.H(hn), p.Ref, row, p.Idx, c.updPath(old, p.BaseSort, p.Path, val)))
	case PGlobal:
		c.setH(p.Name, c.updPath(c.H(p.Name), p.BaseSort, p.Path, val))
	}
}

// placeOfPointer interprets a pointer-typed Val as a place to its pointee.
func (c *FnCtx) placeOfPointer(v Val, ptrType types.Type) *Place {
	if v.Place != nil {
		return v.Place
	}
	pt, _ := types.Unalias(ptrType).Underlying().(*types.Pointer)
	var elem types.Type
	if pt != nil {
		elem = pt.Elem()
	} else {
		elem = types.Typ[types.Int]
	}
	es := c.M.SortOf(elem)
	if si := c.M.Struct(es); si != nil {
		return &Place{Kind: PStructPtr, Ref: v.T, BaseSort: es, Sort: es, GoType: elem}
	}
	if at, ok := types.Unalias(elem).Underlying().(*types.Array); ok {
		// pointer to array: row in slice heap; place denotes the whole row (only IndexAddr/Slice use it)
		hn, ees := c.M.SliceHeap(at.Elem())
		return &Place{Kind: PElem, Heap: hn, Ref: v.T, Idx: "", BaseSort: ees, Sort: es, GoType: elem}
	}
	hn, _ := c.M.CellHeap(elem)
	return &Place{Kind: PCell, Heap: hn, Ref: v.T, BaseSort: es, Sort: es, GoType: elem}
}

// ---------- literals ----------

func (c *FnCtx) strLit(s string) string {
	if s == "" {
		return "str_empty"
	}
	if n, ok := c.lits[s]; ok {
		return n
	}
	n := fmt.Sprintf("lit!%d", len(c.lits)+1)
	c.lits[s] = n
	c.litSeq = append(c.litSeq, s)
	c.declare(n, SStr)
	var b strings.Builder
	fmt.Fprintf(&b, "(and (= (slen %s) %d)", n, len(s))
	lim := len(s)
	if lim > 64 {
		lim = 64
	}
	for i := 0; i < lim; i++ {
		fmt.Fprintf(&b, " (= (sat %s %d) %d)", n, i, s[i])
	}
	b.WriteString(")")
	c.gfact(b.String())
	// distinct from previous literals
	for _, o := range c.litSeq[:len(c.litSeq)-1] {
		c.gfact(fmt.Sprintf("(not (= %s %s))", n, c.lits[o]))
	}
	return n
}

func (c *FnCtx) constVal(k *ssa.Const) Val {
	t := k.Type()
	s := c.M.SortOf(t)
	if k.Value == nil {
		// zero value / nil
		return Val{T: c.M.Zero(s), S: s}
	}
	switch s {
	case SBool:
		if constant.BoolVal(k.Value) {
			return Val{T: "true", S: SBool}
		}
		return Val{T: "false", S: SBool}
	case SInt:
		v := constant.ToInt(k.Value)
		str := v.ExactString()
		if strings.HasPrefix(str, "-") {
			str = "(- " + str[1:] + ")"
		}
		return Val{T: str, S: SInt}
	case SStr:
		return Val{T: c.strLit(constant.StringVal(k.Value)), S: SStr}
	case SFloat:
		n := "flit_" + mangle(k.Value.ExactString())
		c.declare(n, SFloat)
		return Val{T: n, S: SFloat}
	}
	return Val{T: c.M.Zero(s), S: s}
}

// ---------- value lookup ----------

func (c *FnCtx) val(v ssa.Value) Val {
	if x, ok := c.vals[v]; ok {
		return x
	}
	switch x := v.(type) {
	case *ssa.Const:
		return c.constVal(x)
	case *ssa.Function:
		id := c.E.fnID(x)
		return Val{T: strconv.Itoa(id), S: SInt, Fn: &FnVal{Fn: x}}
	case *ssa.Builtin:
		return Val{T: "0", S: SInt, Fn: &FnVal{Builtin: x.Name()}}
	case *ssa.Global:
		gt := x.Type().(*types.Pointer).Elem()
		gs := c.M.SortOf(gt)
		name := "G|" + x.Pkg.Pkg.Path() + "." + x.Name() + "|" + string(gs)
		c.heapsUsed[name] = gs
		return Val{T: "0", S: SInt, Place: &Place{Kind: PGlobal, Name: name, BaseSort: gs, Sort: gs, GoType: gt}}
	case *ssa.Parameter, *ssa.FreeVar:
		panic("unbound param " + v.Name())
	}
	// value defined in a block not yet translated (should not happen in RPO except loop-carried)
	s := c.M.SortOf(v.Type())
	n := c.freshConst("undef_"+v.Name(), s)
	c.note("use-before-def " + v.Name())
	return Val{T: n, S: s}
}

func (c *FnCtx) bind(v ssa.Value, x Val) { c.vals[v] = x }

// define names a term with a constant (keeps scripts small and models readable)
func (c *FnCtx) define(v ssa.Value, term string, s Sort) Val {
	n := c.pfx + "v_" + mangle(v.Name())
	if c.declS[n] {
		n = c.newName(n)
	}
	c.declare(n, s)
	c.fact(fmt.Sprintf("(= %s %s)", n, term))
	x := Val{T: n, S: s}
	c.vals[v] = x
	return x
}

func (c *FnCtx) havocVal(prefix string, t types.Type) Val {
	if tup, ok := t.(*types.Tuple); ok {
		var vs []Val
		for i := 0; i < tup.Len(); i++ {
			vs = append(vs, c.havocVal(prefix, tup.At(i).Type()))
		}
		return Val{Tup: vs, S: "Tuple"}
	}
	s := c.M.SortOf(t)
	n := c.freshConst(prefix, s)
	c.typeFacts(n, t)
	return Val{T: n, S: s}
}

// ---------- CFG analysis ----------

func (c *FnCtx) analyzeCFG() {
	f := c.F
	// reverse postorder ignoring back edges; back edge = edge to a dominator
	c.loops = map[int]*Loop{}
	c.loopOf = map[int][]*Loop{}
	for _, b := range f.Blocks {
		for _, s := range b.Succs {
			if s.Dominates(b) {
				l := c.loops[s.Index]
				if l == nil {
					l = &Loop{Header: s, Blocks: map[int]bool{s.Index: true}, Mod: map[string]bool{}, ModFresh: map[string]bool{}, ModRows: map[string][]ssa.Value{}, ModWhole: map[string]bool{}}
					c.loops[s.Index] = l
				}
				l.BackPred = append(l.BackPred, b)
				// natural loop body
				stack := []*ssa.BasicBlock{b}
				for len(stack) > 0 {
					x := stack[len(stack)-1]
					stack = stack[:len(stack)-1]
					if l.Blocks[x.Index] {
						continue
					}
					l.Blocks[x.Index] = true
					for _, p := range x.Preds {
						stack = append(stack, p)
					}
				}
			}
		}
	}
	var hdrs []int
	for h := range c.loops {
		hdrs = append(hdrs, h)
	}
	sort.Ints(hdrs)
	for i, h := range hdrs {
		c.loops[h].Ordinal = i + 1
	}
	for _, l := range c.loops {
		for b := range l.Blocks {
			c.loopOf[b] = append(c.loopOf[b], l)
		}
	}
	// RPO on DAG
	visited := map[int]bool{}
	var post []*ssa.BasicBlock
	var dfs func(b *ssa.BasicBlock)
	dfs = func(b *ssa.BasicBlock) {
		visited[b.Index] = true
		for _, s := range b.Succs {
			if s.Dominates(b) { // back edge
				continue
			}
			if !visited[s.Index] {
				dfs(s)
			}
		}
		post = append(post, b)
	}
	if len(f.Blocks) > 0 {
		dfs(f.Blocks[0])
	}
	for i := len(post) - 1; i >= 0; i-- {
		c.order = append(c.order, post[i])
	}
	// ancestors
	c.anc = map[int]map[int]bool{}
	for _, b := range c.order {
		a := map[int]bool{}
		for _, p := range b.Preds {
			if b.Dominates(p) {
				continue
			}
			a[p.Index] = true
			for x := range c.anc[p.Index] {
				a[x] = true
			}
		}
		c.anc[b.Index] = a
	}
}

func isBackEdge(from, to *ssa.BasicBlock) bool { return to.Dominates(from) }

// ---------- translate ----------

func (c *FnCtx) translate() {
	f := c.F
	if len(f.Blocks) == 0 {
		c.unsupported = "no body"
		return
	}
	c.analyzeCFG()
	c.computeLoopMods()
	c.curBlk = 0
	// parameters
	for _, p := range f.Params {
		v := c.paramVal("p_"+mangle(p.Name()), p.Type())
		v.GT = p.Type()
		c.vals[p] = v
		c.params[p.Name()] = v
	}
	for _, fv := range f.FreeVars {
		v := c.paramVal("fv_"+mangle(fv.Name()), fv.Type())
		v.GT = fv.Type()
		c.vals[fv] = v
		c.params["&"+fv.Name()] = v
		if _, isPtr := types.Unalias(fv.Type()).Underlying().(*types.Pointer); isPtr {
			c.gfact(fmt.Sprintf("(not (= %s 0))", v.T)) // captured variables are cells, never nil
		}
	}
	if f.Signature.Recv() != nil && len(f.Params) > 0 {
		if _, isPtr := types.Unalias(f.Params[0].Type()).Underlying().(*types.Pointer); isPtr {
			// implicit precondition: pointer receivers are non-nil (obliged at static call sites as nilrecv)
			c.gfact(fmt.Sprintf("(not (= %s 0))", c.vals[f.Params[0]].T))
		}
	}
	c.E.globalFacts(c)
	c.reach[0] = "true"
	c.assumeRequires()
	for _, b := range c.order {
		c.block(b)
	}
	c.checkEnsures()
	if c.Spec != nil && c.inl == nil {
		for i, cs := range c.Spec.Callsites {
			if !c.callsiteHit[i] {
				// the contract demands the assertion at every call of the callee in this function, and that
				// there is one: a ghost assertion attached to no call is an undischarged obligation
				c.curBlk = 0
				o := c.oblige("callsite-missing", "false", fmt.Sprintf("%s/c%d: no static call of it in this function", cs.Callee, i+1), token.NoPos)
				o.Props = cs.Cl.Props
				o.Pos = cs.Cl.Where
			}
		}
	}
}

func (c *FnCtx) paramVal(name string, t types.Type) Val {
	s := c.M.SortOf(t)
	c.declare(name, s)
	saveBlk := c.curBlk
	c.curBlk = -1
	c.typeFactsG(name, t)
	c.curBlk = saveBlk
	return Val{T: name, S: s}
}

func (c *FnCtx) typeFactsG(t string, gt types.Type) {
	// like typeFacts but relative to entry watermark, emitted as global facts
	gt = types.Unalias(gt)
	wm := c.heapIn(c.entry, "$wm")
	switch u := gt.Underlying().(type) {
	case *types.Basic:
		if u.Info()&types.IsInteger != 0 {
			lo, hi := intRange(u)
			if lo != "" {
				c.gfact(fmt.Sprintf("(and (>= %s %s) (<= %s %s))", t, lo, t, hi))
			}
		}
	case *types.Interface:
		c.gfact(fmt.Sprintf("(anywf %s %s)", t, wm))
		if u.NumMethods() > 0 {
			c.gfact(fmt.Sprintf("(or (= %s a_nil) ((_ is a_other) %s))", t, t))
		}
	case *types.Pointer, *types.Map, *types.Chan:
		c.gfact(fmt.Sprintf("(and (>= %s 0) (<= %s %s))", t, t, wm))
	case *types.Slice:
		c.gfact(fmt.Sprintf("(and (>= (s_off %s) 0) (>= (s_len %s) 0) (<= (s_len %s) (s_cap %s)) (>= (s_ref %s) 0) (<= (s_ref %s) %s) (=> (= (s_ref %s) 0) (= (s_cap %s) 0)))", t, t, t, t, t, t, wm, t, t))
	}
}

func (c *FnCtx) edgePred(from, to *ssa.BasicBlock) string {
	if e, ok := c.edges[[2]int{from.Index, to.Index}]; ok {
		return e
	}
	return "false"
}

func copyState(m map[string]string) map[string]string {
	r := make(map[string]string, len(m))
	for k, v := range m {
		r[k] = v
	}
	return r
}

func (c *FnCtx) block(b *ssa.BasicBlock) {
	c.curBlk = b.Index
	loop := c.loops[b.Index]
	// --- reach predicate & incoming state
	var fwd []*ssa.BasicBlock
	for _, p := range b.Preds {
		if !isBackEdge(p, b) {
			fwd = append(fwd, p)
		}
	}
	if b.Index != 0 {
		var es []string
		for _, p := range fwd {
			es = append(es, c.edgePred(p, b))
		}
		entryReach := "false"
		if len(es) == 1 {
			entryReach = es[0]
		} else if len(es) > 1 {
			entryReach = "(or " + strings.Join(dedup(es), " ") + ")"
		}
		r := fmt.Sprintf("%sr_b%d", c.pfx, b.Index)
		c.declare(r, SBool)
		if loop != nil {
			c.fact(fmt.Sprintf("(=> %s %s)", r, entryReach))
		} else {
			c.fact(fmt.Sprintf("(= %s %s)", r, entryReach))
		}
		c.reach[b.Index] = r
	}
	// merge heap states of forward preds
	c.st = c.mergeStates(b, fwd)
	if loop != nil {
		c.loopHeader(b, loop, fwd)
	}
	// --- instructions
	for _, ins := range b.Instrs {
		if phi, ok := ins.(*ssa.Phi); ok {
			if loop != nil {
				continue // handled in loopHeader
			}
			c.phi(b, phi, fwd)
			continue
		}
		c.instr(ins)
	}
	c.outSt[b.Index] = copyState(c.st)
	// back edges out of this block: check invariants
	for _, s := range b.Succs {
		if isBackEdge(b, s) {
			c.checkBackEdge(b, s)
		}
	}
}

func dedup(xs []string) []string {
	seen := map[string]bool{}
	var r []string
	for _, x := range xs {
		if !seen[x] {
			seen[x] = true
			r = append(r, x)
		}
	}
	return r
}

func (c *FnCtx) mergeStates(b *ssa.BasicBlock, preds []*ssa.BasicBlock) map[string]string {
	if len(preds) == 0 {
		return map[string]string{}
	}
	if len(preds) == 1 {
		return copyState(c.outSt[preds[0].Index])
	}
	names := map[string]bool{}
	for _, p := range preds {
		for n := range c.outSt[p.Index] {
			names[n] = true
		}
	}
	var ns []string
	for n := range names {
		ns = append(ns, n)
	}
	sort.Strings(ns)
	st := map[string]string{}
	for _, n := range ns {
		first := c.heapIn(c.outSt[preds[0].Index], n)
		same := true
		for _, p := range preds[1:] {
			if c.heapIn(c.outSt[p.Index], n) != first {
				same = false
			}
		}
		if same {
			st[n] = first
			continue
		}
		term := c.heapIn(c.outSt[preds[len(preds)-1].Index], n)
		for i := len(preds) - 2; i >= 0; i-- {
			term = fmt.Sprintf("(ite %s %s %s)", c.edgePred(preds[i], b), c.heapIn(c.outSt[preds[i].Index], n), term)
		}
		nm := heapSMTName(n, fmt.Sprintf("%sb%d", c.pfx, b.Index))
		c.declare(nm, c.heapSort(n))
		c.fact(fmt.Sprintf("(= %s %s)", nm, term))
		st[n] = nm
	}
	return st
}

func (c *FnCtx) phi(b *ssa.BasicBlock, phi *ssa.Phi, fwd []*ssa.BasicBlock) {
	s := c.M.SortOf(phi.Type())
	var term string
	first := true
	for i := len(b.Preds) - 1; i >= 0; i-- {
		p := b.Preds[i]
		if isBackEdge(p, b) {
			continue
		}
		v := c.val(phi.Edges[i])
		if v.Place != nil || v.Fn != nil && v.T == "" {
			c.note("phi of place/fn")
		}
		vt := v.T
		if vt == "" {
			vt = c.M.Zero(s)
		}
		if first {
			term = vt
			first = false
		} else {
			term = fmt.Sprintf("(ite %s %s %s)", c.edgePred(p, b), vt, term)
		}
	}
	c.define(phi, term, s)
}

// ---------- instruction dispatch in instr.go ----------

func posOf(ins ssa.Instruction) token.Pos {
	return ins.Pos()
}

// isInit: the synthetic package initializer (var initializers); user init#N functions run
// after every var initializer of the package.
func (c *FnCtx) isInit() bool {
	return c.F.Name() == "init" && c.F.Synthetic != ""
}

// loadWM: an upper bound for references read out of the given heap version — the watermark at the
// time the version was created (its contents cannot mention objects allocated later)
func (c *FnCtx) loadWM(heapTerm string) string {
	if w, ok := c.hwm[heapTerm]; ok {
		return w
	}
	return c.H("$wm")
}
