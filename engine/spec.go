package main

// spec.go — contract files (//@ lines), the spec expression language and its compilation to SMT.

import (
	"bufio"
	"fmt"
	"go/types"
	"golang.org/x/tools/go/ssa"
	"os"
	"path/filepath"
	"regexp"
	"sort"
	"strconv"
	"strings"
)

type Clause struct {
	Kind  string
	Props []string
	Text  string
	Expr  *SX
	Where string
}

type LoopSpec struct {
	Ordinal    int
	Invariants []*Clause
	Decreases  *Clause
	Order      string // order-independence class annotation
}

type FuncSpec struct {
	Key        string // pkgname.Func
	Requires   []*Clause
	Ensures    []*Clause
	Assigns    []string
	HasAssigns bool
	NoPanic    []string
	HasNoPanic bool
	Except     []string // safety obligations (kind#ordinal) explicitly not claimed, with a stated reason
	Pure       bool
	Loops      map[int]*LoopSpec
	Where      string
	Trusted    bool
	Props      map[string]bool
	Callsites  []*CallsiteClause
}

// CallsiteClause: `callsite[Cxx] <callee> : <expr>` — a ghost assertion obliged in this function at every
// call of <callee> (contract key or full external name), over the callee's parameter names (arg0.. for
// externals) and this function's parameters; fresh() is relative to this function's entry.
type CallsiteClause struct {
	Callee string
	Cl     *Clause
}

type SpecFn struct {
	Name   string
	Params []SpecParam
	Res    string
	Body   *SX
}
type SpecParam struct{ Name, Type string }

type TableSpec struct {
	Pkg   string
	Name  string
	Props []string
	Rows  [][2]string // key, function description (as printed by the extractor)
	Exact bool
	Where string
}

type Specs struct {
	Inactive []string
	Tables   []*TableSpec
	Funcs    map[string]*FuncSpec
	SpecFns  map[string]*SpecFn
	Errors   []string
	Scan     []string // mechanical scan hits for assume/trusted
	TagRules []*TagRule
}

// TagRule: `rendered[Cxx] <Type>.<Field> : <reason>` — the field's value when the attribute is absent from a file
// is not the Go zero value, so the zero value must be written by the renderers: no `omitempty` in its tags
type TagRule struct {
	Pkg, Type, Field string
	Props            []string
	Where, Why       string
}

var clauseRe = regexp.MustCompile(`^(requires|ensures|invariant|decreases|callsite|rendered|nopanic|assigns|pure|loop|func|spec|order-independent|trusted|table|row|exact|except)\b(\[[A-Z0-9, ]*\])?\s*(.*)$`)

func parseProps(s string) []string {
	s = strings.Trim(s, "[]")
	var r []string
	for _, p := range strings.Split(s, ",") {
		p = strings.TrimSpace(p)
		if p != "" {
			r = append(r, p)
		}
	}
	return r
}

// LoadSpecs reads every <pkg>/verif_contracts.go under root plus extra files.
func LoadSpecs(root string, extra []string) *Specs {
	sp := &Specs{Funcs: map[string]*FuncSpec{}, SpecFns: map[string]*SpecFn{}}
	var files []string
	filepath.Walk(root, func(p string, info os.FileInfo, err error) error {
		if err == nil && !info.IsDir() && strings.HasPrefix(info.Name(), "verif_contracts") && strings.HasSuffix(info.Name(), ".go") {
			files = append(files, p)
		}
		return nil
	})
	sort.Strings(files)
	files = append(files, extra...)
	for _, f := range files {
		sp.loadFile(f)
	}
	return sp
}

func (sp *Specs) loadFile(path string) {
	fh, err := os.Open(path)
	if err != nil {
		return
	}
	defer fh.Close()
	sc := bufio.NewScanner(fh)
	sc.Buffer(make([]byte, 1<<20), 1<<20)
	pkg := ""
	var cur *FuncSpec
	var curTable *TableSpec
	var curLoop *LoopSpec
	var last *Clause
	ln := 0
	for sc.Scan() {
		ln++
		line := strings.TrimSpace(sc.Text())
		if strings.HasPrefix(line, "package ") {
			pkg = strings.TrimSpace(strings.TrimPrefix(line, "package "))
			continue
		}
		if !strings.HasPrefix(line, "//@") {
			continue
		}
		if strings.HasPrefix(line, "//@?") {
			// inactive clause (kept for documentation: the engine cannot discharge it yet)
			sp.Inactive = append(sp.Inactive, fmt.Sprintf("%s:%d: %s", path, ln, strings.TrimSpace(line[4:])))
			last = nil
			continue
		}
		body := strings.TrimSpace(strings.TrimPrefix(line, "//@"))
		if i := strings.Index(body, " // "); i >= 0 {
			body = strings.TrimSpace(body[:i])
		}
		if body == "" {
			continue
		}
		where := fmt.Sprintf("%s:%d", path, ln)
		lower := strings.ToLower(body)
		if strings.HasPrefix(lower, "assume") || strings.HasPrefix(lower, "trusted") || strings.HasPrefix(lower, "axiom") {
			sp.Scan = append(sp.Scan, where+": "+body)
		}
		m := clauseRe.FindStringSubmatch(body)
		if m == nil {
			// continuation
			if last != nil {
				last.Text += " " + body
				continue
			}
			sp.Errors = append(sp.Errors, where+": unrecognised contract line: "+body)
			continue
		}
		kw, props, rest := m[1], parseProps(m[2]), strings.TrimSpace(m[3])
		last = nil
		switch kw {
		case "func":
			key := pkg + "." + rest
			if old, dup := sp.Funcs[key]; dup {
				// a second block for the same function (possibly in another file) adds clauses
				cur = old
			} else {
				cur = &FuncSpec{Key: key, Loops: map[int]*LoopSpec{}, Where: where, Props: map[string]bool{}}
				sp.Funcs[key] = cur
			}
			curLoop = nil
		case "table":
			if i := strings.Index(rest, "["); i >= 0 && len(props) == 0 {
				props = parseProps(rest[i:])
				rest = rest[:i]
			}
			curTable = &TableSpec{Pkg: pkg, Name: strings.Fields(rest + " ?")[0], Props: props, Where: where}
			sp.Tables = append(sp.Tables, curTable)
			cur = nil
		case "row":
			if curTable == nil {
				sp.Errors = append(sp.Errors, where+": row outside table")
				continue
			}
			// row "key" funcdesc
			q := strings.Index(rest, "\"")
			q2 := -1
			if q >= 0 {
				if j := strings.Index(rest[q+1:], "\""); j >= 0 {
					q2 = q + 1 + j
				}
			}
			if q < 0 || q2 <= q {
				sp.Errors = append(sp.Errors, where+": bad row: "+rest)
				continue
			}
			curTable.Rows = append(curTable.Rows, [2]string{rest[q+1 : q2], strings.TrimSpace(rest[q2+1:])})
		case "exact":
			if curTable != nil {
				curTable.Exact = true
			}
		case "spec":
			sf, err := parseSpecFn(rest)
			if err != nil {
				sp.Errors = append(sp.Errors, where+": "+err.Error())
			} else {
				sp.SpecFns[sf.Name] = sf
			}
			cur = nil
		case "loop":
			if cur == nil {
				sp.Errors = append(sp.Errors, where+": loop outside func")
				continue
			}
			n, _ := strconv.Atoi(strings.Fields(rest + " 0")[0])
			if old, ok := cur.Loops[n]; ok {
				curLoop = old
			} else {
				curLoop = &LoopSpec{Ordinal: n}
				cur.Loops[n] = curLoop
			}
		case "requires", "ensures", "invariant", "decreases":
			if cur == nil {
				sp.Errors = append(sp.Errors, where+": clause outside func")
				continue
			}
			cl := &Clause{Kind: kw, Props: props, Text: rest, Where: where}
			last = cl
			for _, p := range props {
				cur.Props[p] = true
			}
			switch kw {
			case "requires":
				cur.Requires = append(cur.Requires, cl)
			case "ensures":
				cur.Ensures = append(cur.Ensures, cl)
			case "invariant":
				if curLoop == nil {
					sp.Errors = append(sp.Errors, where+": invariant outside loop")
					continue
				}
				curLoop.Invariants = append(curLoop.Invariants, cl)
			case "decreases":
				if curLoop == nil {
					sp.Errors = append(sp.Errors, where+": decreases outside loop")
					continue
				}
				curLoop.Decreases = cl
			}
		case "rendered":
			tf := strings.SplitN(strings.TrimSpace(strings.SplitN(rest, " : ", 2)[0]), ".", 2)
			if len(tf) != 2 || pkg == "" {
				sp.Errors = append(sp.Errors, where+": rendered needs <Type>.<Field> : <reason>, after the package clause")
				continue
			}
			why := ""
			if i := strings.Index(rest, " : "); i >= 0 {
				why = rest[i+3:]
			}
			sp.TagRules = append(sp.TagRules, &TagRule{Pkg: pkg, Type: tf[0], Field: tf[1], Props: props, Where: where, Why: why})
		case "callsite":
			if cur == nil {
				sp.Errors = append(sp.Errors, where+": callsite outside func")
				continue
			}
			j := strings.Index(rest, " : ")
			if j < 0 {
				sp.Errors = append(sp.Errors, where+": callsite needs '<callee> : <expr>'")
				continue
			}
			cl := &Clause{Kind: kw, Props: props, Text: strings.TrimSpace(rest[j+3:]), Where: where}
			last = cl
			for _, p := range props {
				cur.Props[p] = true
			}
			cur.Callsites = append(cur.Callsites, &CallsiteClause{Callee: strings.TrimSpace(rest[:j]), Cl: cl})
		case "except":
			// except <obligation name suffix>, ... : <reason>   (obligations of this function that are NOT claimed)
			if cur != nil {
				ex := rest
				if j := strings.Index(ex, " : "); j >= 0 {
					ex = ex[:j]
				}
				for _, it := range strings.Split(ex, ",") {
					if it = strings.TrimSpace(it); it != "" {
						cur.Except = append(cur.Except, it)
					}
				}
			}
		case "nopanic":
			if cur != nil {
				// nopanic[Cxx] except index#2, nilfunc#1 : <reason>
				if i := strings.Index(rest, "except"); i >= 0 {
					ex := rest[i+len("except"):]
					if j := strings.Index(ex, ":"); j >= 0 {
						ex = ex[:j]
					}
					for _, it := range strings.Split(ex, ",") {
						if it = strings.TrimSpace(it); it != "" {
							cur.Except = append(cur.Except, it)
						}
					}
				}
				cur.HasNoPanic = true
				cur.NoPanic = append(cur.NoPanic, props...)
				for _, p := range props {
					cur.Props[p] = true
				}
			}
		case "assigns":
			if cur != nil {
				cur.HasAssigns = true
				for _, a := range strings.Split(rest, ",") {
					a = strings.TrimSpace(a)
					if a != "" && a != "nothing" {
						cur.Assigns = append(cur.Assigns, a)
					}
				}
			}
		case "pure":
			if cur != nil {
				cur.Pure = true
				cur.HasAssigns = true
			}
		case "order-independent":
			if curLoop != nil {
				curLoop.Order = strings.TrimSpace(strings.TrimPrefix(rest, "by"))
			}
		case "trusted":
			if cur != nil {
				cur.Trusted = true
			}
		}
	}
	// parse expressions
	for _, fs := range sp.Funcs {
		all := append(append([]*Clause{}, fs.Requires...), fs.Ensures...)
		for _, cs := range fs.Callsites {
			all = append(all, cs.Cl)
		}
		for _, l := range fs.Loops {
			all = append(all, l.Invariants...)
			if l.Decreases != nil {
				all = append(all, l.Decreases)
			}
		}
		for _, cl := range all {
			if cl.Expr != nil {
				continue
			}
			e, err := ParseSX(cl.Text)
			if err != nil {
				sp.Errors = append(sp.Errors, cl.Where+": "+err.Error()+" in: "+cl.Text)
				continue
			}
			cl.Expr = e
		}
	}
}

func parseSpecFn(s string) (*SpecFn, error) {
	// name(a int, b string) bool [= expr]
	i := strings.Index(s, "(")
	j := strings.Index(s, ")")
	if i < 0 || j < i {
		return nil, fmt.Errorf("bad spec function: %s", s)
	}
	sf := &SpecFn{Name: strings.TrimSpace(s[:i])}
	for _, p := range strings.Split(s[i+1:j], ",") {
		p = strings.TrimSpace(p)
		if p == "" {
			continue
		}
		fs := strings.Fields(p)
		if len(fs) != 2 {
			return nil, fmt.Errorf("bad spec param %q", p)
		}
		sf.Params = append(sf.Params, SpecParam{fs[0], fs[1]})
	}
	rest := strings.TrimSpace(s[j+1:])
	if k := strings.Index(rest, "="); k >= 0 {
		sf.Res = strings.TrimSpace(rest[:k])
		e, err := ParseSX(strings.TrimSpace(rest[k+1:]))
		if err != nil {
			return nil, err
		}
		sf.Body = e
	} else {
		sf.Res = rest
	}
	return sf, nil
}

// ---------- expression AST ----------

type SX struct {
	Op   string // lit-int, lit-str, ident, call, index, slice, field, unary, binary, forall, exists
	Name string
	Args []*SX
	Vars []SpecParam // quantifier binders
}

type sxLexer struct {
	toks []string
	pos  int
}

func lexSX(s string) ([]string, error) {
	var toks []string
	i := 0
	for i < len(s) {
		ch := s[i]
		switch {
		case ch == ' ' || ch == '\t':
			i++
		case ch >= '0' && ch <= '9':
			j := i
			for j < len(s) && (s[j] >= '0' && s[j] <= '9' || s[j] == 'x' || (s[j] >= 'a' && s[j] <= 'f') || (s[j] >= 'A' && s[j] <= 'F')) {
				j++
			}
			toks = append(toks, s[i:j])
			i = j
		case ch == '_' || ch == '&' && i+1 < len(s) && isIdentStart(s[i+1]) && (len(toks) == 0 || !isOperandEnd(toks[len(toks)-1])) || isIdentStart(ch):
			j := i + 1
			for j < len(s) && (isIdentStart(s[j]) || s[j] >= '0' && s[j] <= '9' || s[j] == '$') {
				j++
			}
			toks = append(toks, s[i:j])
			i = j
		case ch == '"':
			j := i + 1
			for j < len(s) && s[j] != '"' {
				if s[j] == '\\' {
					j++
				}
				j++
			}
			if j >= len(s) {
				return nil, fmt.Errorf("unterminated string")
			}
			toks = append(toks, s[i:j+1])
			i = j + 1
		case ch == '\'':
			j := i + 1
			for j < len(s) && s[j] != '\'' {
				if s[j] == '\\' {
					j++
				}
				j++
			}
			if j >= len(s) {
				return nil, fmt.Errorf("unterminated char")
			}
			toks = append(toks, s[i:j+1])
			i = j + 1
		default:
			for _, op := range []string{"<==>", "==>", "::", "==", "!=", "<=", ">=", "&&", "||", "[]"} {
				if strings.HasPrefix(s[i:], op) {
					toks = append(toks, op)
					i += len(op)
					goto next
				}
			}
			toks = append(toks, string(ch))
			i++
		next:
		}
	}
	return toks, nil
}

func isIdentStart(c byte) bool {
	return c == '_' || c >= 'a' && c <= 'z' || c >= 'A' && c <= 'Z'
}
func isOperandEnd(t string) bool {
	if t == ")" || t == "]" {
		return true
	}
	c := t[0]
	return isIdentStart(c) || c >= '0' && c <= '9' || c == '"' || c == '\''
}

func ParseSX(s string) (*SX, error) {
	toks, err := lexSX(s)
	if err != nil {
		return nil, err
	}
	p := &sxLexer{toks: toks}
	e, err := p.expr()
	if err != nil {
		return nil, err
	}
	if p.pos < len(p.toks) {
		return nil, fmt.Errorf("unexpected %q", p.toks[p.pos])
	}
	return e, nil
}

func (p *sxLexer) peek() string {
	if p.pos < len(p.toks) {
		return p.toks[p.pos]
	}
	return ""
}
func (p *sxLexer) next() string { t := p.peek(); p.pos++; return t }
func (p *sxLexer) accept(t string) bool {
	if p.peek() == t {
		p.pos++
		return true
	}
	return false
}

func (p *sxLexer) expr() (*SX, error) {
	if p.peek() == "forall" || p.peek() == "exists" {
		q := p.next()
		var vars []SpecParam
		for {
			name := p.next()
			var ty []string
			for p.peek() != "," && p.peek() != "::" && p.peek() != "" {
				ty = append(ty, p.next())
			}
			vars = append(vars, SpecParam{name, strings.Join(ty, "")})
			if p.accept(",") {
				continue
			}
			break
		}
		if !p.accept("::") {
			return nil, fmt.Errorf("expected :: in quantifier")
		}
		body, err := p.expr()
		if err != nil {
			return nil, err
		}
		return &SX{Op: q, Vars: vars, Args: []*SX{body}}, nil
	}
	return p.implies()
}

func (p *sxLexer) implies() (*SX, error) {
	l, err := p.iff()
	if err != nil {
		return nil, err
	}
	if p.accept("==>") {
		r, err := p.expr()
		if err != nil {
			return nil, err
		}
		return &SX{Op: "binary", Name: "==>", Args: []*SX{l, r}}, nil
	}
	return l, nil
}

func (p *sxLexer) iff() (*SX, error) {
	l, err := p.or()
	if err != nil {
		return nil, err
	}
	for p.accept("<==>") {
		r, err := p.or()
		if err != nil {
			return nil, err
		}
		l = &SX{Op: "binary", Name: "<==>", Args: []*SX{l, r}}
	}
	return l, nil
}

func (p *sxLexer) or() (*SX, error) {
	l, err := p.and()
	if err != nil {
		return nil, err
	}
	for p.accept("||") {
		r, err := p.and()
		if err != nil {
			return nil, err
		}
		l = &SX{Op: "binary", Name: "||", Args: []*SX{l, r}}
	}
	return l, nil
}

func (p *sxLexer) and() (*SX, error) {
	l, err := p.cmp()
	if err != nil {
		return nil, err
	}
	for p.accept("&&") {
		r, err := p.cmp()
		if err != nil {
			return nil, err
		}
		l = &SX{Op: "binary", Name: "&&", Args: []*SX{l, r}}
	}
	return l, nil
}

func (p *sxLexer) cmp() (*SX, error) {
	if p.peek() == "forall" || p.peek() == "exists" {
		return p.expr()
	}
	l, err := p.add()
	if err != nil {
		return nil, err
	}
	switch p.peek() {
	case "==", "!=", "<", "<=", ">", ">=":
		op := p.next()
		r, err := p.add()
		if err != nil {
			return nil, err
		}
		return &SX{Op: "binary", Name: op, Args: []*SX{l, r}}, nil
	}
	return l, nil
}

func (p *sxLexer) add() (*SX, error) {
	l, err := p.mul()
	if err != nil {
		return nil, err
	}
	for p.peek() == "+" || p.peek() == "-" {
		op := p.next()
		r, err := p.mul()
		if err != nil {
			return nil, err
		}
		l = &SX{Op: "binary", Name: op, Args: []*SX{l, r}}
	}
	return l, nil
}

func (p *sxLexer) mul() (*SX, error) {
	l, err := p.unary()
	if err != nil {
		return nil, err
	}
	for p.peek() == "*" || p.peek() == "/" || p.peek() == "%" {
		op := p.next()
		r, err := p.unary()
		if err != nil {
			return nil, err
		}
		l = &SX{Op: "binary", Name: op, Args: []*SX{l, r}}
	}
	return l, nil
}

func (p *sxLexer) unary() (*SX, error) {
	if p.accept("!") {
		x, err := p.unary()
		if err != nil {
			return nil, err
		}
		return &SX{Op: "unary", Name: "!", Args: []*SX{x}}, nil
	}
	if p.accept("-") {
		x, err := p.unary()
		if err != nil {
			return nil, err
		}
		return &SX{Op: "unary", Name: "-", Args: []*SX{x}}, nil
	}
	return p.postfix()
}

func (p *sxLexer) postfix() (*SX, error) {
	x, err := p.primary()
	if err != nil {
		return nil, err
	}
	for {
		switch {
		case p.accept("["):
			if p.accept(":") {
				hi, err := p.expr()
				if err != nil {
					return nil, err
				}
				if !p.accept("]") {
					return nil, fmt.Errorf("expected ]")
				}
				x = &SX{Op: "slice", Args: []*SX{x, nil, hi}}
				continue
			}
			i, err := p.expr()
			if err != nil {
				return nil, err
			}
			if p.accept(":") {
				var hi *SX
				if p.peek() != "]" {
					hi, err = p.expr()
					if err != nil {
						return nil, err
					}
				}
				if !p.accept("]") {
					return nil, fmt.Errorf("expected ]")
				}
				x = &SX{Op: "slice", Args: []*SX{x, i, hi}}
				continue
			}
			if !p.accept("]") {
				return nil, fmt.Errorf("expected ]")
			}
			x = &SX{Op: "index", Args: []*SX{x, i}}
		case p.peek() == "." && p.pos+1 < len(p.toks):
			p.next()
			f := p.next()
			x = &SX{Op: "field", Name: f, Args: []*SX{x}}
		case p.peek() == "(" && x.Op == "ident":
			p.next()
			var args []*SX
			for p.peek() != ")" {
				a, err := p.expr()
				if err != nil {
					return nil, err
				}
				args = append(args, a)
				if !p.accept(",") {
					break
				}
			}
			if !p.accept(")") {
				return nil, fmt.Errorf("expected ) in call to %s", x.Name)
			}
			x = &SX{Op: "call", Name: x.Name, Args: args}
		default:
			return x, nil
		}
	}
}

func (p *sxLexer) primary() (*SX, error) {
	t := p.next()
	if t == "" {
		return nil, fmt.Errorf("unexpected end of expression")
	}
	switch {
	case t == "(":
		e, err := p.expr()
		if err != nil {
			return nil, err
		}
		if !p.accept(")") {
			return nil, fmt.Errorf("expected )")
		}
		return e, nil
	case t[0] >= '0' && t[0] <= '9':
		n, err := strconv.ParseInt(t, 0, 64)
		if err != nil {
			return nil, err
		}
		return &SX{Op: "lit-int", Name: strconv.FormatInt(n, 10)}, nil
	case t[0] == '"':
		s, err := strconv.Unquote(t)
		if err != nil {
			return nil, err
		}
		return &SX{Op: "lit-str", Name: s}, nil
	case t[0] == '\'':
		r, _, _, err := strconv.UnquoteChar(t[1:len(t)-1], '\'')
		if err != nil {
			return nil, err
		}
		return &SX{Op: "lit-int", Name: strconv.Itoa(int(r))}, nil
	case isIdentStart(t[0]) || t[0] == '&':
		return &SX{Op: "ident", Name: t}, nil
	}
	return nil, fmt.Errorf("unexpected token %q", t)
}

// ---------- evaluation ----------

var anyType = types.NewInterfaceType(nil, nil)
var mapStrAny = types.NewMap(types.Typ[types.String], anyType)
var sliceAny = types.NewSlice(anyType)
var mapStrStr = types.NewMap(types.Typ[types.String], types.Typ[types.String])
var sliceStr = types.NewSlice(types.Typ[types.String])

func specType(name string) (Sort, types.Type, error) {
	switch name {
	case "int":
		return SInt, types.Typ[types.Int], nil
	case "string":
		return SStr, types.Typ[types.String], nil
	case "bool":
		return SBool, types.Typ[types.Bool], nil
	case "any":
		return SAny, anyType, nil
	case "float":
		return SFloat, types.Typ[types.Float64], nil
	case "ref":
		return SInt, nil, nil
	case "map[string]any":
		return SInt, mapStrAny, nil
	case "map[string]string":
		return SInt, mapStrStr, nil
	case "[]any":
		return SSlice, sliceAny, nil
	case "[]string":
		return SSlice, sliceStr, nil
	}
	return "", nil, fmt.Errorf("unknown spec type %q", name)
}

func (e *specEnv) evalBool(x *SX) (string, error) {
	v, _, err := e.eval(x)
	if err != nil {
		return "", err
	}
	if v.S != SBool {
		return "", fmt.Errorf("expected bool, got %s", v.S)
	}
	return v.T, nil
}

type gtVal struct {
	Val
	GT types.Type
}

func smtInt(s string) string {
	if strings.HasPrefix(s, "-") {
		return "(- " + s[1:] + ")"
	}
	return s
}

// eval returns the value and its static Go type (may be nil).
func (e *specEnv) eval(x *SX) (Val, types.Type, error) {
	c := e.c
	switch x.Op {
	case "lit-int":
		return Val{T: smtInt(x.Name), S: SInt}, types.Typ[types.Int], nil
	case "lit-str":
		return Val{T: c.strLit(x.Name), S: SStr}, types.Typ[types.String], nil
	case "ident":
		switch x.Name {
		case "true", "false":
			return Val{T: x.Name, S: SBool}, types.Typ[types.Bool], nil
		case "nil":
			return Val{T: "nil", S: "Nil"}, nil, nil
		}
		if v, ok := e.bound[x.Name]; ok {
			return v, e.gtOf(x.Name, v), nil
		}
		if v, ok := e.vars[x.Name]; ok {
			cv, cell := e.vars["&"+x.Name]
			if cell && cv.Place == nil && e.gtOf("&"+x.Name, cv) == nil {
				cell = false
			}
			if !cell {
				// an interior pointer (&x.f) has a place and no pointer term: usable as the base of a
				// field selection and in nil tests only (fieldVal / evalBinary); anything else is rejected there
				return v, e.gtOf(x.Name, v), nil
			}
		}
		if v, ok := e.vars["&"+x.Name]; ok && (v.Place != nil || e.gtOf("&"+x.Name, v) != nil) {
			// address-taken local: load its current content
			pl := c.placeOfPointer(v, e.gtOf("&"+x.Name, v))
			return Val{T: c.loadPlaceIn(e.st, pl), S: pl.Sort}, pl.GoType, nil
		}
		// package-level variable of the function's package
		if g := e.lookupGlobal(x.Name); g != nil {
			gv := c.val(g)
			pl := gv.Place
			t := c.loadPlaceIn(e.st, pl)
			r := Val{T: t, S: pl.Sort, GT: pl.GoType}
			if ti := c.E.tables[pl.Name]; ti != nil {
				r.Table = ti
				c.tableDomainFacts(ti, t, e.st)
			}
			return r, pl.GoType, nil
		}
		return Val{}, nil, fmt.Errorf("unknown name %q", x.Name)
	case "unary":
		a, _, err := e.eval(x.Args[0])
		if err != nil {
			return Val{}, nil, err
		}
		if x.Name == "!" {
			return Val{T: "(not " + a.T + ")", S: SBool}, nil, nil
		}
		return Val{T: "(- " + a.T + ")", S: SInt}, types.Typ[types.Int], nil
	case "binary":
		return e.evalBinary(x)
	case "forall", "exists":
		saved := map[string]Val{}
		var binders []string
		for _, v := range x.Vars {
			s, gt, err := specType(v.Type)
			if err != nil {
				return Val{}, nil, err
			}
			if old, ok := e.bound[v.Name]; ok {
				saved[v.Name] = old
			}
			qn := "q_" + v.Name
			e.bound[v.Name] = Val{T: qn, S: s}
			e.setGT(v.Name, gt)
			binders = append(binders, fmt.Sprintf("(%s %s)", qn, s))
		}
		body, err := e.evalBool(x.Args[0])
		for _, v := range x.Vars {
			delete(e.bound, v.Name)
			if old, ok := saved[v.Name]; ok {
				e.bound[v.Name] = old
			}
		}
		if err != nil {
			return Val{}, nil, err
		}
		if x.Op == "forall" {
			var bv []string
			for _, v := range x.Vars {
				bv = append(bv, "q_"+v.Name)
			}
			if pats := inferPatterns(body, bv); pats != "" {
				return Val{T: fmt.Sprintf("(forall (%s) (! %s%s))", strings.Join(binders, " "), body, pats), S: SBool}, nil, nil
			}
		}
		return Val{T: fmt.Sprintf("(%s (%s) %s)", x.Op, strings.Join(binders, " "), body), S: SBool}, nil, nil
	case "index":
		a, at, err := e.eval(x.Args[0])
		if err != nil {
			return Val{}, nil, err
		}
		i, _, err := e.eval(x.Args[1])
		if err != nil {
			return Val{}, nil, err
		}
		return e.indexVal(a, at, i)
	case "slice":
		a, _, err := e.eval(x.Args[0])
		if err != nil {
			return Val{}, nil, err
		}
		lo := "0"
		if x.Args[1] != nil {
			l, _, err := e.eval(x.Args[1])
			if err != nil {
				return Val{}, nil, err
			}
			lo = l.T
		}
		if a.S != SStr {
			return Val{}, nil, fmt.Errorf("slice expression only on strings in specs")
		}
		hi := "(slen " + a.T + ")"
		if x.Args[2] != nil {
			h, _, err := e.eval(x.Args[2])
			if err != nil {
				return Val{}, nil, err
			}
			hi = h.T
		}
		return Val{T: fmt.Sprintf("(ssub %s %s %s)", a.T, lo, hi), S: SStr}, types.Typ[types.String], nil
	case "field":
		// result.N
		if x.Args[0].Op == "ident" && (x.Args[0].Name == "result" || strings.HasPrefix(x.Args[0].Name, "dyn") || strings.HasPrefix(x.Args[0].Name, "res_")) {
			if v, ok := e.vars[x.Args[0].Name+"."+x.Name]; ok {
				return v, e.gtOf(x.Args[0].Name+"."+x.Name, v), nil
			}
		}
		a, at, err := e.eval(x.Args[0])
		if err != nil {
			return Val{}, nil, err
		}
		return e.fieldVal(a, at, x.Name)
	case "call":
		return e.evalCall(x)
	}
	return Val{}, nil, fmt.Errorf("bad expression op %s", x.Op)
}

// static Go types of environment names are kept beside the env
func (e *specEnv) gtOf(name string, v Val) types.Type {
	if e.c.E.gtNames != nil {
		if t, ok := e.c.E.gtNames[e.c.Name+"|"+name]; ok {
			return t
		}
	}
	if v.GT != nil {
		return v.GT
	}
	return nil
}
func (e *specEnv) setGT(name string, t types.Type) {
	if t != nil {
		e.c.E.gtNames[e.c.Name+"|"+name] = t
	} else {
		delete(e.c.E.gtNames, e.c.Name+"|"+name)
	}
}

func (e *specEnv) evalBinary(x *SX) (Val, types.Type, error) {
	a, at, err := e.eval(x.Args[0])
	if err != nil {
		return Val{}, nil, err
	}
	b, bt, err := e.eval(x.Args[1])
	if err != nil {
		return Val{}, nil, err
	}
	_ = bt
	op := x.Name
	switch op {
	case "==>":
		return Val{T: fmt.Sprintf("(=> %s %s)", a.T, b.T), S: SBool}, nil, nil
	case "<==>":
		return Val{T: fmt.Sprintf("(= %s %s)", a.T, b.T), S: SBool}, nil, nil
	case "&&":
		return Val{T: fmt.Sprintf("(and %s %s)", a.T, b.T), S: SBool}, nil, nil
	case "||":
		return Val{T: fmt.Sprintf("(or %s %s)", a.T, b.T), S: SBool}, nil, nil
	case "==", "!=":
		var t string
		if b.S == "Nil" && a.T == "" && a.Place != nil {
			t = "false" // interior pointer is never nil
		} else if a.S == "Nil" && b.T == "" && b.Place != nil {
			t = "false"
		} else if (a.T == "" && a.Place != nil) != (b.T == "" && b.Place != nil) {
			// interior pointer against a pointer to a whole object: distinct in the Burstall model
			// (a *T term always denotes a standalone allocation)
			t = "false"
		} else if a.T == "" && a.Place != nil {
			return Val{}, nil, fmt.Errorf("two interior pointers compared in %s", op)
		} else if b.S == "Nil" {
			t = nilTest(a)
		} else if a.S == "Nil" {
			t = nilTest(b)
		} else {
			if a.S != b.S {
				// allow comparing Any with Str etc. by boxing
				if a.S == SAny && b.S == SStr {
					b = Val{T: "(a_str " + b.T + ")", S: SAny}
				} else if a.S == SStr && b.S == SAny {
					a = Val{T: "(a_str " + a.T + ")", S: SAny}
				} else if a.S == SAny && b.S == SBool {
					b = Val{T: "(a_bool " + b.T + ")", S: SAny}
				} else if a.S == SAny && b.S == SInt {
					b = Val{T: "(a_int " + b.T + ")", S: SAny}
				} else {
					return Val{}, nil, fmt.Errorf("sort mismatch in ==: %s vs %s", a.S, b.S)
				}
			}
			t = fmt.Sprintf("(= %s %s)", a.T, b.T)
		}
		if op == "!=" {
			t = "(not " + t + ")"
		}
		return Val{T: t, S: SBool}, nil, nil
	case "<", "<=", ">", ">=":
		return Val{T: fmt.Sprintf("(%s %s %s)", op, a.T, b.T), S: SBool}, nil, nil
	case "+":
		if a.S == SStr {
			return Val{T: fmt.Sprintf("(sconcat %s %s)", a.T, b.T), S: SStr}, at, nil
		}
		return Val{T: fmt.Sprintf("(+ %s %s)", a.T, b.T), S: SInt}, at, nil
	case "-", "*":
		return Val{T: fmt.Sprintf("(%s %s %s)", op, a.T, b.T), S: SInt}, at, nil
	case "/":
		return Val{T: fmt.Sprintf("(div %s %s)", a.T, b.T), S: SInt}, at, nil
	case "%":
		return Val{T: fmt.Sprintf("(mod %s %s)", a.T, b.T), S: SInt}, at, nil
	}
	return Val{}, nil, fmt.Errorf("bad operator %s", op)
}

func nilTest(a Val) string {
	switch a.S {
	case SAny:
		return "(= " + a.T + " a_nil)"
	case SSlice:
		return "(= (s_ref " + a.T + ") 0)"
	case SInt:
		return "(= " + a.T + " 0)"
	}
	return "false"
}

func (e *specEnv) mapSorts(t types.Type) (Sort, Sort, types.Type, bool) {
	if t == nil {
		return "", "", nil, false
	}
	m, ok := types.Unalias(t).Underlying().(*types.Map)
	if !ok {
		return "", "", nil, false
	}
	return e.c.M.SortOf(m.Key()), e.c.M.SortOf(m.Elem()), m.Elem(), true
}

func (e *specEnv) indexVal(a Val, at types.Type, i Val) (Val, types.Type, error) {
	c := e.c
	switch a.S {
	case SStr:
		return Val{T: fmt.Sprintf("(sat %s %s)", a.T, i.T), S: SInt}, types.Typ[types.Int], nil
	case SSlice:
		var et types.Type = anyType
		if at != nil {
			if st, ok := types.Unalias(at).Underlying().(*types.Slice); ok {
				et = st.Elem()
			}
		}
		hn, es := c.M.SliceHeap(et)
		h := c.heapIn(e.st, hn)
		return Val{T: fmt.Sprintf("(select (select %s (s_ref %s)) (+ (s_off %s) %s))", h, a.T, a.T, i.T), S: es}, et, nil
	case SInt:
		ks, vs, vt, ok := e.mapSorts(at)
		if !ok {
			return Val{}, nil, fmt.Errorf("indexing a non-map reference")
		}
		if i.S != ks && ks == SAny && i.S == SStr {
			i = Val{T: "(a_str " + i.T + ")", S: SAny}
		}
		mhn, _, _, _, _ := c.M.MapHeaps(at)
		h := c.heapIn(e.st, mhn)
		return Val{T: fmt.Sprintf("(select (select %s %s) %s)", h, a.T, i.T), S: vs}, vt, nil
	}
	return Val{}, nil, fmt.Errorf("cannot index sort %s", a.S)
}

func (e *specEnv) fieldVal(a Val, at types.Type, name string) (Val, types.Type, error) {
	c := e.c
	if a.T == "" && a.Place != nil {
		// interior pointer to a struct: read the struct value at the place in the current state
		if si := c.M.Struct(a.Place.Sort); si != nil {
			a = Val{T: c.loadPlaceIn(e.st, a.Place), S: a.Place.Sort}
		} else {
			return Val{}, nil, fmt.Errorf("field %s of a non-struct place", name)
		}
	}
	if si := c.M.Struct(a.S); si != nil {
		i := si.FieldIndex(name)
		if i < 0 {
			return Val{}, nil, fmt.Errorf("no field %s in %s", name, si.Name)
		}
		return Val{T: fmt.Sprintf("(%s %s)", si.Sel(i), a.T), S: si.Fields[i].Sort}, si.Fields[i].Type, nil
	}
	if a.S == SInt && at != nil {
		if pt, ok := types.Unalias(at).Underlying().(*types.Pointer); ok {
			es := c.M.SortOf(pt.Elem())
			if si := c.M.Struct(es); si != nil {
				i := si.FieldIndex(name)
				if i < 0 {
					return Val{}, nil, fmt.Errorf("no field %s in %s", name, si.Name)
				}
				t := c.loadStructPath(e.st, si, a.T, []int{i})
				// heap well-formedness, as at instruction-level loads: a reference stored in a field is not younger
				// than the watermark of the state it is read in (only for closed terms: no bound variable inside)
				// (emitted in functions that claim a frame - pure/assigns - where object ages decide aliasing)
				if fs := c.Spec; fs != nil && (fs.Pure || fs.HasAssigns) && si.Fields[i].Type != nil && si.Fields[i].Sort == SInt && !strings.Contains(t, "q_") {
					ft := si.Fields[i].Type
					switch types.Unalias(ft).Underlying().(type) {
					case *types.Pointer, *types.Map, *types.Chan:
						f := fmt.Sprintf("(and (>= %s 0) (<= %s %s))", t, t, c.heapIn(e.st, "$wm"))
						if !c.wfEmitted[f] {
							if c.wfEmitted == nil {
								c.wfEmitted = map[string]bool{}
							}
							c.wfEmitted[f] = true
							c.gfact(f)
							// the same in the entry state, for an object that existed then
							t0, wm0 := c.loadStructPath(c.entry, si, a.T, []int{i}), c.heapIn(c.entry, "$wm")
							c.gfact(fmt.Sprintf("(=> (and (>= %s 1) (<= %s %s)) (<= %s %s))", a.T, a.T, wm0, t0, wm0))
						}
					}
				}
				return Val{T: t, S: si.Fields[i].Sort}, si.Fields[i].Type, nil
			}
		}
	}
	return Val{}, nil, fmt.Errorf("field %s of non-struct (%s)", name, a.S)
}

type builtinSig struct {
	args []Sort
	res  Sort
}

var specUFs = map[string]builtinSig{
	"hasprefix":  {[]Sort{SStr, SStr}, SBool},
	"hassuffix":  {[]Sort{SStr, SStr}, SBool},
	"contains":   {[]Sort{SStr, SStr}, SBool},
	"sindex":     {[]Sort{SStr, SStr}, SInt},
	"slastindex": {[]Sort{SStr, SStr}, SInt},
	"slen":       {[]Sort{SStr}, SInt},
	"sat":        {[]Sort{SStr, SInt}, SInt},
	"ssub":       {[]Sort{SStr, SInt, SInt}, SStr},
	"sconcat":    {[]Sort{SStr, SStr}, SStr},
	"deepeq":     {[]Sort{SAny, SAny}, SBool},
	"splitcount": {[]Sort{SStr, SStr}, SInt},
	"splitpart":  {[]Sort{SStr, SStr, SInt}, SStr},
}

// lookupType: a named type of the package of the function under contract
func (e *specEnv) lookupType(name string) types.Type {
	f := e.c.F
	if e.callee != nil {
		f = e.callee
	}
	for f.Parent() != nil {
		f = f.Parent()
	}
	pkg := f.Pkg
	if pkg == nil && f.Origin() != nil {
		pkg = f.Origin().Pkg
	}
	if pkg == nil {
		return nil
	}
	if tn, ok := pkg.Pkg.Scope().Lookup(name).(*types.TypeName); ok {
		return tn.Type()
	}
	return nil
}

func (e *specEnv) lookupGlobal(name string) *ssa.Global {
	f := e.c.F
	if e.callee != nil {
		f = e.callee
	}
	for f.Parent() != nil {
		f = f.Parent()
	}
	pkg := f.Pkg
	if pkg == nil && f.Origin() != nil {
		pkg = f.Origin().Pkg
	}
	if pkg == nil {
		return nil
	}
	if g, ok := pkg.Members[name].(*ssa.Global); ok {
		return g
	}
	return nil
}

// pathMatch: tree.Path.Matches as a spec predicate over strings.Split parts
func (e *specEnv) pathMatch(p, pat Val) string {
	c := e.c
	dot := c.strLit(".")
	star := c.strLit("*")
	c.declareFun("splitcount", []Sort{SStr, SStr}, SInt)
	c.declareFun("splitpart", []Sort{SStr, SStr, SInt}, SStr)
	if pl, ok := c.litContent(p.T); ok {
		c.literalSplitFacts(p.T, pl)
	}
	c.literalSplitFacts("str_empty", "")
	for _, ls := range append([]string{}, c.litSeq...) {
		if len(ls) < 80 {
			c.literalSplitFacts(c.lits[ls], ls)
		}
	}
	if lit, ok := c.litContent(pat.T); ok {
		parts := strings.Split(lit, ".")
		c.literalSplitFacts(pat.T, lit)
		var b strings.Builder
		fmt.Fprintf(&b, "(and (= (splitcount %s %s) %d)", p.T, dot, len(parts))
		for i, part := range parts {
			if part == "*" {
				continue
			}
			fmt.Fprintf(&b, " (= (splitpart %s %s %d) %s)", p.T, dot, i, c.strLit(part))
		}
		b.WriteString(")")
		return b.String()
	}
	return fmt.Sprintf("(and (= (splitcount %s %s) (splitcount %s %s)) (forall ((qi Int)) (! (=> (and (<= 0 qi) (< qi (splitcount %s %s))) (or (= (splitpart %s %s qi) %s) (= (splitpart %s %s qi) (splitpart %s %s qi)))) :pattern ((splitpart %s %s qi)) :pattern ((splitpart %s %s qi)))))",
		pat.T, dot, p.T, dot, p.T, dot, pat.T, dot, star, pat.T, dot, p.T, dot, pat.T, dot, p.T, dot)
}

// literalSplitFacts: parts of a literal path, computed by running strings.Split on the literal
func (c *FnCtx) literalSplitFacts(term, lit string) {
	key := "split|" + lit
	if c.ufs[key] {
		return
	}
	c.ufs[key] = true
	dot := c.strLit(".")
	c.declareFun("splitcount", []Sort{SStr, SStr}, SInt)
	c.declareFun("splitpart", []Sort{SStr, SStr, SInt}, SStr)
	parts := strings.Split(lit, ".")
	c.gfact(fmt.Sprintf("(= (splitcount %s %s) %d)", term, dot, len(parts)))
	for i, p := range parts {
		c.gfact(fmt.Sprintf("(= (splitpart %s %s %d) %s)", term, dot, i, c.strLit(p)))
	}
}

func (e *specEnv) evalCall(x *SX) (Val, types.Type, error) {
	c := e.c
	arg := func(i int) (Val, types.Type, error) {
		if i >= len(x.Args) {
			return Val{}, nil, fmt.Errorf("%s: missing argument %d", x.Name, i)
		}
		return e.eval(x.Args[i])
	}
	switch x.Name {
	case "unbox", "isType":
		// unbox(x, T) / isType(x, T): x is an interface value, T a named type of the function's package
		a, _, err := arg(0)
		if err != nil {
			return Val{}, nil, err
		}
		if a.S != SAny || len(x.Args) < 2 || x.Args[1].Op != "ident" {
			return Val{}, nil, fmt.Errorf("%s(x, T): x must be an interface value and T a type name", x.Name)
		}
		nt := e.lookupType(x.Args[1].Name)
		if nt == nil {
			return Val{}, nil, fmt.Errorf("%s: unknown type %s", x.Name, x.Args[1].Name)
		}
		test, payload, ps := c.anyTest(a.T, nt)
		if x.Name == "isType" {
			return Val{T: test, S: SBool}, types.Typ[types.Bool], nil
		}
		return Val{T: payload, S: ps, GT: nt}, nt, nil
	case "old":
		saved := e.st
		e.st = e.old
		before := c.heapReads
		v, t, err := arg(0)
		e.st = saved
		if err == nil && c.heapReads == before {
			return v, t, fmt.Errorf("old(...) around an expression that reads no heap (write old(has(m,k)) / old(m[k]), not has(old(m),k))")
		}
		return v, t, err
	case "len":
		a, at, err := arg(0)
		if err != nil {
			return Val{}, nil, err
		}
		switch a.S {
		case SStr:
			return Val{T: "(slen " + a.T + ")", S: SInt}, types.Typ[types.Int], nil
		case SSlice:
			return Val{T: "(s_len " + a.T + ")", S: SInt}, types.Typ[types.Int], nil
		case SInt:
			_, _, _, ok := e.mapSorts(at)
			if ok {
				return Val{T: c.mapLen(e.st, at, a.T), S: SInt}, types.Typ[types.Int], nil
			}
		}
		return Val{}, nil, fmt.Errorf("len of %s", a.S)
	case "has":
		m, mt, err := arg(0)
		if err != nil {
			return Val{}, nil, err
		}
		k, _, err := arg(1)
		if err != nil {
			return Val{}, nil, err
		}
		ks, vs, _, ok := e.mapSorts(mt)
		if !ok {
			return Val{}, nil, fmt.Errorf("has: not a map (sort %s, type %v, term %s)", m.S, mt, m.T)
		}
		if k.S != ks && ks == SAny && k.S == SStr {
			k = Val{T: "(a_str " + k.T + ")", S: SAny}
		}
		_ = vs
		_, dhn, _, _, _ := c.M.MapHeaps(mt)
		d := c.heapIn(e.st, dhn)
		return Val{T: fmt.Sprintf("(and (not (= %s 0)) (select (select %s %s) %s))", m.T, d, m.T, k.T), S: SBool}, nil, nil
	case "isNil", "isStr", "isMap", "isList", "isInt", "isBool", "isFloat", "isMapAA", "isOther":
		a, _, err := arg(0)
		if err != nil {
			return Val{}, nil, err
		}
		if a.S != SAny {
			return Val{}, nil, fmt.Errorf("%s on non-any", x.Name)
		}
		ctor := map[string]string{"isNil": "a_nil", "isStr": "a_str", "isMap": "a_map", "isList": "a_list", "isInt": "a_int", "isBool": "a_bool", "isFloat": "a_float", "isMapAA": "a_mapaa", "isOther": "a_other"}[x.Name]
		return Val{T: fmt.Sprintf("((_ is %s) %s)", ctor, a.T), S: SBool}, nil, nil
	case "asStr", "asMap", "asList", "asInt", "asBool", "asMapAA":
		a, _, err := arg(0)
		if err != nil {
			return Val{}, nil, err
		}
		switch x.Name {
		case "asStr":
			return Val{T: "(a_s " + a.T + ")", S: SStr}, types.Typ[types.String], nil
		case "asMap":
			return Val{T: "(a_m " + a.T + ")", S: SInt}, mapStrAny, nil
		case "asMapAA":
			return Val{T: "(a_maa " + a.T + ")", S: SInt}, types.NewMap(anyType, anyType), nil
		case "asList":
			return Val{T: "(a_l " + a.T + ")", S: SSlice}, sliceAny, nil
		case "asInt":
			return Val{T: "(a_i " + a.T + ")", S: SInt}, types.Typ[types.Int], nil
		case "asBool":
			return Val{T: "(a_b " + a.T + ")", S: SBool}, types.Typ[types.Bool], nil
		}
	case "mkStr", "mkMap", "mkList", "mkBool", "mkInt":
		a, _, err := arg(0)
		if err != nil {
			return Val{}, nil, err
		}
		ctor := map[string]string{"mkStr": "a_str", "mkMap": "a_map", "mkList": "a_list", "mkBool": "a_bool", "mkInt": "a_int"}[x.Name]
		return Val{T: fmt.Sprintf("(%s %s)", ctor, a.T), S: SAny}, anyType, nil
	case "fresh":
		a, _, err := arg(0)
		if err != nil {
			return Val{}, nil, err
		}
		wm := c.heapIn(e.old, "$wm")
		switch a.S {
		case SInt:
			return Val{T: fmt.Sprintf("(> %s %s)", a.T, wm), S: SBool}, nil, nil
		case SSlice:
			return Val{T: fmt.Sprintf("(> (s_ref %s) %s)", a.T, wm), S: SBool}, nil, nil
		case SAny:
			return Val{T: fmt.Sprintf("(and (=> ((_ is a_map) %s) (> (a_m %s) %s)) (=> ((_ is a_list) %s) (> (s_ref (a_l %s)) %s)))", a.T, a.T, wm, a.T, a.T, wm), S: SBool}, nil, nil
		}
		return Val{}, nil, fmt.Errorf("fresh of %s", a.S)
	case "allocated":
		// allocated(x): the object x refers to exists in the state the clause is evaluated in (x is not younger
		// than the current allocation watermark); together with fresh() it places an object between two points
		a, _, err := arg(0)
		if err != nil {
			return Val{}, nil, err
		}
		wm := c.heapIn(e.st, "$wm")
		c.heapReads++
		switch a.S {
		case SInt:
			return Val{T: fmt.Sprintf("(<= %s %s)", a.T, wm), S: SBool}, nil, nil
		case SSlice:
			return Val{T: fmt.Sprintf("(<= (s_ref %s) %s)", a.T, wm), S: SBool}, nil, nil
		}
		return Val{}, nil, fmt.Errorf("allocated of %s", a.S)
	case "frame":
		// frame(): every row that existed at function entry and is outside the assigns clause holds what it
		// held at entry, for every heap class (a loop invariant that carries the function's frame through a
		// loop whose writes go to objects made during the call)
		if e.callee != nil || c.Spec == nil || !c.Spec.HasAssigns {
			return Val{}, nil, fmt.Errorf("frame() is only meaningful in the loops of a function with an assigns/pure clause")
		}
		allowed := c.assignRows(c.Spec, c.params, c.entry)
		wm0 := c.heapIn(c.entry, "$wm")
		var conj []string
		for _, n := range c.knownHeaps() {
			if n == "$wm" {
				continue
			}
			cur, old := c.heapIn(e.st, n), c.heapIn(c.entry, n)
			if cur == old {
				continue
			}
			if strings.HasPrefix(n, "G|") {
				if !allowed.globals[n] {
					conj = append(conj, fmt.Sprintf("(= %s %s)", cur, old))
				}
				continue
			}
			var ex []string
			for _, row := range allowed.rows[n] {
				ex = append(ex, fmt.Sprintf("(not (= qr %s))", row))
			}
			pre := fmt.Sprintf("(and (<= 1 qr) (<= qr %s)", wm0)
			if len(ex) > 0 {
				pre += " " + strings.Join(ex, " ")
			}
			pre += ")"
			conj = append(conj, fmt.Sprintf("(forall ((qr Int)) (! (=> %s (= (select %s qr) (select %s qr))) :pattern ((select %s qr))))", pre, cur, old, cur))
		}
		c.heapReads++
		if len(conj) == 0 {
			return Val{T: "true", S: SBool}, types.Typ[types.Bool], nil
		}
		return Val{T: "(and " + strings.Join(conj, " ") + " true)", S: SBool}, types.Typ[types.Bool], nil
	case "seen":
		k, _, err := arg(0)
		if err != nil {
			return Val{}, nil, err
		}
		if e.seen == "" {
			return Val{}, nil, fmt.Errorf("seen() outside a map-range loop")
		}
		return Val{T: fmt.Sprintf("(select %s %s)", e.seen, k.T), S: SBool}, nil, nil
	case "ite":
		cnd, _, err := arg(0)
		if err != nil {
			return Val{}, nil, err
		}
		a, at, err := arg(1)
		if err != nil {
			return Val{}, nil, err
		}
		b, _, err := arg(2)
		if err != nil {
			return Val{}, nil, err
		}
		return Val{T: fmt.Sprintf("(ite %s %s %s)", cnd.T, a.T, b.T), S: a.S}, at, nil
	case "wf":
		a, _, err := arg(0)
		if err != nil {
			return Val{}, nil, err
		}
		if a.S != SAny {
			return Val{}, nil, fmt.Errorf("wf on non-any")
		}
		return Val{T: fmt.Sprintf("(anywf %s %s)", a.T, c.heapIn(e.st, "$wm")), S: SBool}, nil, nil
	case "pathmatch":
		p, _, err := arg(0)
		if err != nil {
			return Val{}, nil, err
		}
		pat, _, err := arg(1)
		if err != nil {
			return Val{}, nil, err
		}
		return Val{T: e.pathMatch(p, pat), S: SBool}, nil, nil
	case "deref":
		a, at, err := arg(0)
		if err != nil {
			return Val{}, nil, err
		}
		if at == nil {
			at = a.GT
		}
		if a.S != SInt || at == nil {
			return Val{}, nil, fmt.Errorf("deref of a non-pointer")
		}
		if _, ok := types.Unalias(at).Underlying().(*types.Pointer); !ok {
			return Val{}, nil, fmt.Errorf("deref of a non-pointer")
		}
		pl := c.placeOfPointer(Val{T: a.T, S: SInt}, at)
		return Val{T: c.loadPlaceIn(e.st, pl), S: pl.Sort, GT: pl.GoType}, pl.GoType, nil
	case "closurefn", "closurerecv":
		a, _, err := arg(0)
		if err != nil {
			return Val{}, nil, err
		}
		c.closureFns()
		f := map[string]string{"closurefn": "clofn", "closurerecv": "clob"}[x.Name]
		return Val{T: fmt.Sprintf("(%s %s)", f, a.T), S: SInt}, nil, nil
	case "bound":
		// bound("(*T).Method", recv): the method value recv.Method
		if len(x.Args) != 2 || x.Args[0].Op != "lit-str" {
			return Val{}, nil, fmt.Errorf("bound(\"(*T).M\", recv) expects a string literal and a receiver")
		}
		name := x.Args[0].Name
		k := e.c.Name
		if e.callee != nil {
			k = fnKey(e.callee)
		}
		name = strings.SplitN(k, ".", 2)[0] + "." + name
		f := c.E.byKey[name]
		if f == nil {
			return Val{}, nil, fmt.Errorf("bound: no method %s", name)
		}
		rv, _, err := arg(1)
		if err != nil {
			return Val{}, nil, err
		}
		c.closureFns()
		return Val{T: fmt.Sprintf("(mkclo %d %s)", c.E.fnID(f), rv.T), S: SInt}, nil, nil
	case "fn":
		if len(x.Args) != 1 || x.Args[0].Op != "lit-str" {
			return Val{}, nil, fmt.Errorf("fn(\"name\") expects a string literal")
		}
		name := x.Args[0].Name
		if c.E.byKey[name] == nil {
			k := e.c.Name
			if e.callee != nil {
				k = fnKey(e.callee)
			}
			name = strings.SplitN(k, ".", 2)[0] + "." + name
		}
		f := c.E.byKey[name]
		if f == nil {
			// a function outside the module, by its full name (e.g. "unicode.IsSpace")
			for g := range c.E.allFuncs {
				if g.Parent() == nil && g.Origin() == nil && g.String() == x.Args[0].Name {
					f = g
					break
				}
			}
		}
		if f == nil {
			return Val{}, nil, fmt.Errorf("fn: no function %s", name)
		}
		return Val{T: fmt.Sprintf("%d", c.E.fnID(f)), S: SInt}, nil, nil
	case "isErr":
		a, _, err := arg(0)
		if err != nil {
			return Val{}, nil, err
		}
		return Val{T: "(not (= " + a.T + " a_nil))", S: SBool}, nil, nil
	}
	if sig, ok := specUFs[x.Name]; ok {
		var ts []string
		for i := range sig.args {
			a, _, err := arg(i)
			if err != nil {
				return Val{}, nil, err
			}
			ts = append(ts, a.T)
		}
		if x.Name != "slen" && x.Name != "sat" && x.Name != "ssub" && x.Name != "sconcat" {
			c.declareFun(x.Name, sig.args, sig.res)
		}
		return Val{T: "(" + x.Name + " " + strings.Join(ts, " ") + ")", S: sig.res}, nil, nil
	}
	if sf, ok := c.E.Specs.SpecFns[x.Name]; ok {
		var avs []Val
		var ats []types.Type
		for i := range sf.Params {
			a, at, err := arg(i)
			if err != nil {
				return Val{}, nil, err
			}
			avs = append(avs, a)
			ats = append(ats, at)
		}
		if sf.Body != nil {
			saved := map[string]Val{}
			for i, p := range sf.Params {
				if o, ok := e.bound[p.Name]; ok {
					saved[p.Name] = o
				}
				e.bound[p.Name] = avs[i]
				_, gt, _ := specType(p.Type)
				if ats[i] != nil {
					gt = ats[i]
				}
				e.setGT(p.Name, gt)
			}
			v, t, err := e.eval(sf.Body)
			for _, p := range sf.Params {
				delete(e.bound, p.Name)
				if o, ok := saved[p.Name]; ok {
					e.bound[p.Name] = o
				}
			}
			return v, t, err
		}
		var sorts []Sort
		var ts []string
		for i, p := range sf.Params {
			s, _, err := specType(p.Type)
			if err != nil {
				return Val{}, nil, err
			}
			sorts = append(sorts, s)
			ts = append(ts, avs[i].T)
		}
		rs, rt, err := specType(sf.Res)
		if err != nil {
			return Val{}, nil, err
		}
		c.declareFun("spec_"+sf.Name, sorts, rs)
		if len(ts) == 0 {
			return Val{T: "spec_" + sf.Name, S: rs}, rt, nil
		}
		return Val{T: "(spec_" + sf.Name + " " + strings.Join(ts, " ") + ")", S: rs}, rt, nil
	}
	// uninterpreted external function symbol used by extern models, e.g. ext_strings_ToLower
	if sig, ok := c.E.extSigs[x.Name]; ok {
		var ts []string
		for i := range sig.args {
			a, _, err := arg(i)
			if err != nil {
				return Val{}, nil, err
			}
			ts = append(ts, a.T)
		}
		c.declareFun(x.Name, sig.args, sig.res)
		return Val{T: "(" + x.Name + " " + strings.Join(ts, " ") + ")", S: sig.res}, nil, nil
	}
	return Val{}, nil, fmt.Errorf("unknown spec function %q", x.Name)
}

// mapLen: uninterpreted cardinality of a domain row
func (c *FnCtx) mapLen(st map[string]string, mt types.Type, m string) string {
	_, dhn, ks, _, _ := c.M.MapHeaps(mt)
	fn := "maplen_" + mangle(string(ks))
	c.declareFun(fn, []Sort{Sort("(Array " + string(ks) + " Bool)")}, SInt)
	if !c.ufs["ax|"+fn] {
		c.ufs["ax|"+fn] = true
		c.gfact(fmt.Sprintf("(forall ((d (Array %s Bool))) (! (>= (%s d) 0) :pattern ((%s d))))", ks, fn, fn))
		c.gfact(fmt.Sprintf("(forall ((d (Array %s Bool)) (k %s)) (! (=> (select d k) (> (%s d) 0)) :pattern ((%s d) (select d k))))", ks, ks, fn, fn))
	}
	d := c.heapIn(st, dhn)
	return fmt.Sprintf("(ite (= %s 0) 0 (%s (select %s %s)))", m, fn, d, m)
}
