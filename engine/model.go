package main

// model.go — Go types -> SMT sorts, heap classes, type ids, SMT prelude.

import (
	"fmt"
	"go/types"
	"sort"
	"strings"
)

type Sort string

const (
	SInt   Sort = "Int"
	SBool  Sort = "Bool"
	SStr   Sort = "Str"
	SFloat Sort = "F"
	SAny   Sort = "Any"
	SSlice Sort = "Slice"
)

// Model is the per-run registry of sorts, struct datatypes, type ids.
type Model struct {
	structs     map[string]*StructInfo // by mangled name
	structOrder []string
	typeIDs     map[string]int
	typeIDList  []string
	arrSorts    map[Sort]bool
	classes     map[string]int
	classNames  []string
}

type StructInfo struct {
	Name   string // mangled sort name, e.g. T_types_ServiceConfig
	Fields []FieldInfo
	GoType types.Type
}

type FieldInfo struct {
	Name string
	Sort Sort
	Type types.Type
}

func NewModel() *Model {
	return &Model{structs: map[string]*StructInfo{}, typeIDs: map[string]int{}, arrSorts: map[Sort]bool{}}
}

func mangle(s string) string {
	var b strings.Builder
	for _, r := range s {
		switch {
		case r >= 'a' && r <= 'z', r >= 'A' && r <= 'Z', r >= '0' && r <= '9', r == '_':
			b.WriteRune(r)
		default:
			b.WriteByte('_')
		}
	}
	return b.String()
}

func shortTypeName(t types.Type) string {
	s := types.TypeString(t, func(p *types.Package) string { return p.Name() })
	return s
}

// SortOf maps a Go type to its SMT sort.
func (m *Model) SortOf(t types.Type) Sort {
	t = types.Unalias(t)
	switch u := t.(type) {
	case *types.Named:
		if st, ok := u.Underlying().(*types.Struct); ok {
			return m.structSort(shortTypeName(u), st, u)
		}
		return m.SortOf(u.Underlying())
	case *types.Basic:
		info := u.Info()
		switch {
		case info&types.IsBoolean != 0:
			return SBool
		case info&types.IsInteger != 0:
			return SInt
		case info&types.IsFloat != 0, info&types.IsComplex != 0:
			return SFloat
		case info&types.IsString != 0:
			return SStr
		case u.Kind() == types.UnsafePointer:
			return SInt
		case u.Kind() == types.UntypedNil:
			return SAny
		}
		return SInt
	case *types.Pointer, *types.Map, *types.Chan, *types.Signature:
		return SInt
	case *types.Slice:
		return SSlice
	case *types.Interface:
		return SAny
	case *types.TypeParam:
		return SAny
	case *types.Struct:
		return m.structSort("anon_"+mangle(u.String()), u, u)
	case *types.Array:
		es := m.SortOf(u.Elem())
		s := Sort("(Array Int " + string(es) + ")")
		m.arrSorts[s] = true
		return s
	case *types.Tuple:
		return "Tuple"
	}
	return SInt
}

func (m *Model) structSort(name string, st *types.Struct, gt types.Type) Sort {
	mn := "T_" + mangle(name)
	if _, ok := m.structs[mn]; ok {
		return Sort(mn)
	}
	si := &StructInfo{Name: mn, GoType: gt}
	m.structs[mn] = si // register first (pointer cycles are Ints, so no real recursion)
	for i := 0; i < st.NumFields(); i++ {
		f := st.Field(i)
		si.Fields = append(si.Fields, FieldInfo{Name: f.Name(), Sort: m.SortOf(f.Type()), Type: f.Type()})
	}
	m.structOrder = append(m.structOrder, mn)
	return Sort(mn)
}

func (m *Model) Struct(s Sort) *StructInfo { return m.structs[string(s)] }

func (si *StructInfo) Sel(i int) string {
	if si.Fields[i].Name == "_" {
		return fmt.Sprintf("%s__blank%d", si.Name, i)
	}
	return si.Name + "__" + mangle(si.Fields[i].Name)
}
func (si *StructInfo) Ctor() string { return "mk_" + si.Name }
func (si *StructInfo) FieldIndex(name string) int {
	for i, f := range si.Fields {
		if f.Name == name {
			return i
		}
	}
	return -1
}

// TypeID gives a stable small integer for a dynamic (concrete) type stored in an interface.
func (m *Model) TypeID(t types.Type) int {
	k := types.TypeString(types.Unalias(t), nil)
	if id, ok := m.typeIDs[k]; ok {
		return id
	}
	id := len(m.typeIDList) + 1
	m.typeIDs[k] = id
	m.typeIDList = append(m.typeIDList, k)
	return id
}

// anyKind classifies how a concrete Go type is boxed into the Any datatype.
// returns constructor name ("" => a_other) .
func (m *Model) anyCtor(t types.Type) string {
	t = types.Unalias(t)
	if _, named := t.(*types.Named); named {
		return "" // named types are never the yaml-native dynamic types
	}
	switch u := t.(type) {
	case *types.Basic:
		switch u.Kind() {
		case types.Bool, types.UntypedBool:
			return "a_bool"
		case types.Int, types.UntypedInt:
			return "a_int"
		case types.Float64, types.UntypedFloat:
			return "a_float"
		case types.String, types.UntypedString:
			return "a_str"
		}
	case *types.Map:
		ks, vs := m.SortOf(u.Key()), m.SortOf(u.Elem())
		if vs == SAny && ks == SStr {
			if _, isb := types.Unalias(u.Key()).(*types.Basic); isb {
				return "a_map"
			}
		}
		if vs == SAny && ks == SAny {
			return "a_mapaa"
		}
	case *types.Slice:
		if m.SortOf(u.Elem()) == SAny {
			if _, isi := types.Unalias(u.Elem()).(*types.Interface); isi {
				return "a_list"
			}
		}
	}
	return ""
}

func anySel(ctor string) string {
	switch ctor {
	case "a_bool":
		return "a_b"
	case "a_int":
		return "a_i"
	case "a_float":
		return "a_f"
	case "a_str":
		return "a_s"
	case "a_map":
		return "a_m"
	case "a_mapaa":
		return "a_maa"
	case "a_list":
		return "a_l"
	}
	return ""
}

// boxFn returns names of the box/unbox functions for sort s (payload of a_other).
func boxFn(s Sort) (string, string) {
	n := mangle(string(s))
	return "box_" + n, "unbox_" + n
}

// canon: canonical text of a type for heap classes (two types convertible into each other
// have equal canon of their underlying element structure).
func canon(t types.Type) string {
	t = types.Unalias(t)
	switch u := t.(type) {
	case *types.Named:
		s := u.Obj().Name()
		if u.Obj().Pkg() != nil {
			s = u.Obj().Pkg().Path() + "." + s
		}
		if ta := u.TypeArgs(); ta != nil {
			var as []string
			for i := 0; i < ta.Len(); i++ {
				as = append(as, canon(ta.At(i)))
			}
			s += "[" + strings.Join(as, ",") + "]"
		}
		return s
	case *types.Basic:
		switch u.Kind() {
		case types.Uint8:
			return "uint8"
		case types.Int32:
			return "int32"
		case types.UntypedString:
			return "string"
		case types.UntypedInt:
			return "int"
		case types.UntypedBool:
			return "bool"
		case types.UntypedFloat:
			return "float64"
		}
		return u.Name()
	case *types.Pointer:
		return "*" + canon(u.Elem())
	case *types.Slice:
		return "[]" + canon(u.Elem())
	case *types.Array:
		return fmt.Sprintf("[%d]%s", u.Len(), canon(u.Elem()))
	case *types.Map:
		return "map[" + canon(u.Key()) + "]" + canon(u.Elem())
	case *types.Interface:
		if u.NumMethods() == 0 && u.NumEmbeddeds() == 0 {
			return "any"
		}
		return u.String()
	case *types.TypeParam:
		return "tparam:" + u.Obj().Name()
	}
	return t.String()
}

func (m *Model) classID(s string) string {
	// a stable id (independent of the order in which types are met): FNV-1a of the canonical type text
	h := uint32(2166136261)
	for i := 0; i < len(s); i++ {
		h ^= uint32(s[i])
		h *= 16777619
	}
	if m.classes == nil {
		m.classes = map[string]int{}
	}
	if _, ok := m.classes[s]; !ok {
		m.classes[s] = int(h)
		m.classNames = append(m.classNames, s)
	}
	return fmt.Sprintf("c%x", h)
}

// MapHeaps: names of the content and domain heaps of a map type.
func (m *Model) MapHeaps(t types.Type) (mh, dh string, ks, vs Sort, mt *types.Map) {
	mt = types.Unalias(t).Underlying().(*types.Map)
	ks, vs = m.SortOf(mt.Key()), m.SortOf(mt.Elem())
	cl := m.classID("map[" + canon(mt.Key()) + "]" + canon(mt.Elem()))
	return "M|" + string(ks) + "|" + string(vs) + "|" + cl, "D|" + string(ks) + "|" + string(vs) + "|" + cl, ks, vs, mt
}

// SliceHeap: name of the element heap for slices/arrays with this element type.
func (m *Model) SliceHeap(elem types.Type) (string, Sort) {
	es := m.SortOf(elem)
	return "S|" + string(es) + "|" + m.classID("[]"+canon(elem)), es
}

// CellHeap: heap of pointers to a non-struct type.
func (m *Model) CellHeap(elem types.Type) (string, Sort) {
	es := m.SortOf(elem)
	return "H|" + string(es) + "|" + m.classID("*"+canon(elem)), es
}

// zero value term of a sort
func (m *Model) Zero(s Sort) string {
	switch s {
	case SInt:
		return "0"
	case SBool:
		return "false"
	case SStr:
		return "str_empty"
	case SFloat:
		return "f_zero"
	case SAny:
		return "a_nil"
	case SSlice:
		return "(mk_slice 0 0 0 0)"
	}
	if si := m.Struct(s); si != nil {
		var b strings.Builder
		b.WriteString("(" + si.Ctor())
		for _, f := range si.Fields {
			b.WriteString(" " + m.Zero(f.Sort))
		}
		b.WriteString(")")
		if len(si.Fields) == 0 {
			return si.Ctor()
		}
		return b.String()
	}
	if strings.HasPrefix(string(s), "(Array Int ") {
		es := Sort(strings.TrimSuffix(strings.TrimPrefix(string(s), "(Array Int "), ")"))
		return fmt.Sprintf("((as const %s) %s)", s, m.Zero(es))
	}
	return "0"
}

// Prelude emits sort/datatype declarations and string axioms.
func (m *Model) Prelude(usedBoxes map[Sort]bool) string {
	var b strings.Builder
	b.WriteString("(declare-sort Str 0)\n(declare-sort F 0)\n")
	b.WriteString("(declare-datatypes ((Slice 0)) (((mk_slice (s_ref Int) (s_off Int) (s_len Int) (s_cap Int)))))\n")
	b.WriteString("(declare-datatypes ((Any 0)) (((a_nil) (a_bool (a_b Bool)) (a_int (a_i Int)) (a_float (a_f F)) (a_str (a_s Str)) (a_map (a_m Int)) (a_mapaa (a_maa Int)) (a_list (a_l Slice)) (a_other (a_ty Int) (a_pl Int)))))\n")
	// struct datatypes in dependency order
	done := map[string]bool{}
	var emit func(n string)
	emit = func(n string) {
		if done[n] {
			return
		}
		done[n] = true
		si := m.structs[n]
		for _, f := range si.Fields {
			fs := string(f.Sort)
			for dep := range m.structs {
				if dep != n && (fs == dep || strings.Contains(fs, " "+dep+")")) {
					emit(dep)
				}
			}
		}
		if len(si.Fields) == 0 {
			fmt.Fprintf(&b, "(declare-datatypes ((%s 0)) (((%s))))\n", si.Name, si.Ctor())
			return
		}
		fmt.Fprintf(&b, "(declare-datatypes ((%s 0)) (((%s", si.Name, si.Ctor())
		for i, f := range si.Fields {
			fmt.Fprintf(&b, " (%s %s)", si.Sel(i), f.Sort)
		}
		b.WriteString("))))\n")
	}
	names := append([]string{}, m.structOrder...)
	sort.Strings(names)
	for _, n := range names {
		emit(n)
	}
	b.WriteString(`(declare-fun slen (Str) Int)
(declare-fun sat (Str Int) Int)
(declare-fun ssub (Str Int Int) Str)
(declare-fun sconcat (Str Str) Str)
(declare-const str_empty Str)
(declare-const f_zero F)
(assert (= (slen str_empty) 0))
(assert (forall ((s Str)) (! (>= (slen s) 0) :pattern ((slen s)))))
(assert (forall ((s Str)) (! (=> (= (slen s) 0) (= s str_empty)) :pattern ((slen s)))))
(assert (forall ((s Str) (i Int)) (! (and (<= 0 (sat s i)) (<= (sat s i) 255)) :pattern ((sat s i)))))
(assert (forall ((s Str) (a Int) (b Int)) (! (=> (and (<= 0 a) (<= a b) (<= b (slen s))) (= (slen (ssub s a b)) (- b a))) :pattern ((ssub s a b)))))
(assert (forall ((s Str) (a Int) (b Int) (i Int)) (! (=> (and (<= 0 a) (<= a b) (<= b (slen s)) (<= 0 i) (< i (- b a))) (= (sat (ssub s a b) i) (sat s (+ a i)))) :pattern ((sat (ssub s a b) i)))))
(assert (forall ((s Str)) (! (= (ssub s 0 (slen s)) s) :pattern ((ssub s 0 (slen s))))))
(assert (forall ((s Str) (t Str)) (! (= (slen (sconcat s t)) (+ (slen s) (slen t))) :pattern ((sconcat s t)))))
(assert (forall ((s Str) (t Str) (i Int)) (! (= (sat (sconcat s t) i) (ite (< i (slen s)) (sat s i) (sat t (- i (slen s))))) :pattern ((sat (sconcat s t) i)))))
(assert (forall ((s Str)) (! (= (sconcat s str_empty) s) :pattern ((sconcat s str_empty)))))
(assert (forall ((s Str)) (! (= (sconcat str_empty s) s) :pattern ((sconcat str_empty s)))))
`)
	var bs []string
	for s := range usedBoxes {
		bs = append(bs, string(s))
	}
	sort.Strings(bs)
	for _, s := range bs {
		bx, ub := boxFn(Sort(s))
		fmt.Fprintf(&b, "(declare-fun %s (%s) Int)\n(declare-fun %s (Int) %s)\n", bx, s, ub, s)
		fmt.Fprintf(&b, "(assert (forall ((x %s)) (! (= (%s (%s x)) x) :pattern ((%s x)))))\n", s, ub, bx, bx)
	}
	return b.String()
}
