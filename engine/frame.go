package main

// frame.go — K3 structural frame obligations: which package-level variables can be written by the
// code reachable from the load entry points (C19: no unsynchronised shared writes; C02: no load
// result can depend on state left by an earlier load).

import (
	"fmt"
	"go/token"
	"go/types"
	"sort"
	"strings"

	"golang.org/x/tools/go/ssa"
)

var loadEntryPoints = []string{
	"loader.LoadWithContext", "loader.LoadModelWithContext", "loader.Load", "loader.LoadConfigFiles",
	"cli.(*ProjectOptions).LoadProject", "cli.(*ProjectOptions).LoadModel", "cli.ProjectFromOptions",
}

// reachable: repo functions reachable from the roots through static calls, closures, function
// values, rule tables and (by method name) interface calls
func (e *Engine) reachable(roots []string) map[*ssa.Function]bool {
	seen := map[*ssa.Function]bool{}
	var work []*ssa.Function
	push := func(f *ssa.Function) {
		if f == nil || seen[f] || !e.inRepo(f) || len(f.Blocks) == 0 {
			return
		}
		seen[f] = true
		work = append(work, f)
	}
	for _, r := range roots {
		push(e.byKey[r])
	}
	// methods by name, for interface invokes
	byMethod := map[string][]*ssa.Function{}
	for f := range e.allFuncs {
		if e.inRepo(f) && f.Signature.Recv() != nil {
			byMethod[f.Name()] = append(byMethod[f.Name()], f)
		}
	}
	for len(work) > 0 {
		f := work[len(work)-1]
		work = work[:len(work)-1]
		for _, b := range f.Blocks {
			for _, ins := range b.Instrs {
				var ops []*ssa.Value
				ops = ins.Operands(ops)
				for _, op := range ops {
					if op == nil || *op == nil {
						continue
					}
					switch v := (*op).(type) {
					case *ssa.Function:
						push(v)
						if m := e.underlyingMethod(v); m != nil {
							push(m)
						}
					case *ssa.MakeClosure:
						fn := v.Fn.(*ssa.Function)
						push(fn)
						if m := e.underlyingMethod(fn); m != nil {
							push(m)
						}
					}
				}
				if mc, ok := ins.(*ssa.MakeClosure); ok {
					fn := mc.Fn.(*ssa.Function)
					push(fn)
					if m := e.underlyingMethod(fn); m != nil {
						push(m)
					}
				}
				if ci, ok := ins.(ssa.CallInstruction); ok {
					cc := ci.Common()
					if cc.IsInvoke() {
						for _, m := range byMethod[cc.Method.Name()] {
							push(m)
						}
					} else if ti := e.tableOfValue(cc.Value); ti != nil {
						for _, r := range ti.Rows {
							push(r.Fn)
						}
					}
				}
			}
		}
	}
	return seen
}

type globalWrite struct {
	fn     *ssa.Function
	global *ssa.Global
	what   string
	pos    token.Pos
	locked bool
}

// holdsGlobalMutex: the function locks a package-level sync.Mutex in its entry block and defers the unlock
func holdsGlobalMutex(f *ssa.Function) bool {
	if len(f.Blocks) == 0 {
		return false
	}
	locked, deferred := false, false
	for _, ins := range f.Blocks[0].Instrs {
		switch x := ins.(type) {
		case *ssa.Call:
			if c := x.Call.StaticCallee(); c != nil && c.Name() == "Lock" && strings.Contains(c.String(), "sync.") {
				if len(x.Call.Args) > 0 {
					if _, ok := x.Call.Args[0].(*ssa.Global); ok {
						locked = true
					}
				}
			}
		case *ssa.Defer:
			if c := x.Call.StaticCallee(); c != nil && c.Name() == "Unlock" && strings.Contains(c.String(), "sync.") {
				deferred = true
			}
		case *ssa.Store, *ssa.MapUpdate:
			if !locked {
				return false
			}
		}
	}
	return locked && deferred
}

func (e *Engine) globalWrites(fns map[*ssa.Function]bool) []globalWrite {
	var out []globalWrite
	for f := range fns {
		if e.isInitFn(f) {
			continue
		}
		lockedFn := holdsGlobalMutex(f)
		// values that are loads of a global (maps / slices held in package-level variables)
		fromGlobal := map[ssa.Value]*ssa.Global{}
		for _, b := range f.Blocks {
			for _, ins := range b.Instrs {
				if u, ok := ins.(*ssa.UnOp); ok && u.Op == token.MUL {
					if g, ok := u.X.(*ssa.Global); ok {
						fromGlobal[u] = g
					}
				}
			}
		}
		for _, b := range f.Blocks {
			for _, ins := range b.Instrs {
				switch x := ins.(type) {
				case *ssa.Store:
					root := e.writeRoot(x)
					if g, ok := root.(*ssa.Global); ok {
						out = append(out, globalWrite{f, g, "store", x.Pos(), lockedFn})
					} else if g := fromGlobal[root]; g != nil {
						out = append(out, globalWrite{f, g, "store through value of", x.Pos(), lockedFn})
					}
				case *ssa.MapUpdate:
					if g := fromGlobal[x.Map]; g != nil {
						out = append(out, globalWrite{f, g, "map update of", x.Pos(), lockedFn})
					}
				case *ssa.Call:
					if bi, ok := x.Call.Value.(*ssa.Builtin); ok && (bi.Name() == "delete" || bi.Name() == "clear") && len(x.Call.Args) > 0 {
						if g := fromGlobal[x.Call.Args[0]]; g != nil {
							out = append(out, globalWrite{f, g, bi.Name() + " on", x.Pos(), lockedFn})
						}
					}
				}
			}
		}
	}
	sort.Slice(out, func(i, j int) bool {
		if fnKey(out[i].fn) != fnKey(out[j].fn) {
			return fnKey(out[i].fn) < fnKey(out[j].fn)
		}
		return out[i].pos < out[j].pos
	})
	return out
}

// globalFrameJobs: one structural obligation per reachable function ("writes no package-level
// variable outside a section that holds a package-level mutex"), plus one summary obligation.
func globalFrameJobs(e *Engine, P string) []*Job {
	fns := e.reachable(loadEntryPoints)
	// the Project derivations are entry points of their own
	for k, f := range e.byKey {
		if strings.HasPrefix(k, "types.(*Project).With") || strings.HasPrefix(k, "types.(*Project).ForEachService") || strings.HasPrefix(k, "graph.InDependencyOrder") {
			for g := range e.reachable([]string{fnKey(f)}) {
				fns[g] = true
			}
		}
	}
	writes := e.globalWrites(fns)
	byFn := map[string][]globalWrite{}
	for _, w := range writes {
		byFn[fnKey(w.fn)] = append(byFn[fnKey(w.fn)], w)
	}
	var jobs []*Job
	var names []string
	for f := range fns {
		if !e.isInitFn(f) {
			names = append(names, fnKey(f))
		}
	}
	sort.Strings(names)
	unguarded := 0
	for _, n := range names {
		ws := byFn[n]
		ok := true
		var ds []string
		for _, w := range ws {
			p := e.Fset.Position(w.pos)
			ds = append(ds, fmt.Sprintf("%s %s.%s at %s:%d (mutex held: %v)", w.what, w.global.Pkg.Pkg.Name(), w.global.Name(), p.Filename, p.Line, w.locked))
			if !w.locked {
				ok = false
				unguarded++
			}
		}
		if len(ws) == 0 {
			continue // counted in the summary obligation
		}
		jobs = append(jobs, structJob(n+"/global-frame", "global-frame", ok, strings.Join(ds, "; "), ""))
	}
	jobs = append(jobs, structJob("module/global-frame/summary", "global-frame", unguarded == 0,
		fmt.Sprintf("%d functions reachable from the load and derivation entry points; %d writes to package-level variables outside init, %d of them without a held package-level mutex", len(names), len(writes), unguarded), ""))
	return jobs
}

// globalMapRangeJobs (C02): iterating a package-level map is order-dependent unless the iteration is proved
// order-independent. Every `range` over (a load of) a package-level map in the functions reachable from the load
// and derivation entry points must be over a rule table declared in the contract files (whose K5 lemma proves
// the patterns pairwise exclusive, so "first match" is a function of the key) or happen inside a function under
// contract (whose map loops are proved with a nondeterministic iterator, i.e. for all orders).
func globalMapRangeJobs(e *Engine, P string) []*Job {
	fns := e.reachable(loadEntryPoints)
	for k, f := range e.byKey {
		if strings.HasPrefix(k, "types.(*Project).With") || strings.HasPrefix(k, "types.(*Project).ForEachService") || strings.HasPrefix(k, "graph.InDependencyOrder") {
			for g := range e.reachable([]string{fnKey(f)}) {
				fns[g] = true
			}
		}
	}
	declared := map[string]bool{}
	for _, ts := range e.Specs.Tables {
		declared[ts.Pkg+"."+ts.Name] = true
	}
	var jobs []*Job
	var names []string
	byName := map[string]*ssa.Function{}
	for f := range fns {
		if !e.isInitFn(f) {
			names = append(names, fnKey(f))
			byName[fnKey(f)] = f
		}
	}
	sort.Strings(names)
	n := 0
	for _, k := range names {
		f := byName[k]
		for _, b := range f.Blocks {
			for _, ins := range b.Instrs {
				rg, ok := ins.(*ssa.Range)
				if !ok {
					continue
				}
				if _, isMap := rg.X.Type().Underlying().(*types.Map); !isMap {
					continue
				}
				u, ok := rg.X.(*ssa.UnOp)
				if !ok {
					continue
				}
				g, ok := u.X.(*ssa.Global)
				if !ok || g.Pkg == nil {
					continue
				}
				n++
				gn := g.Pkg.Pkg.Name() + "." + g.Name()
				_, contracted := e.Specs.Funcs[k]
				frozen := false
				for _, ti := range e.tables {
					if ti.Global == g && ti.Frozen && !ti.Open && len(ti.Rows) > 0 {
						frozen = true
					}
				}
				okk := declared[gn] || (contracted && frozen)
				why := "declared rule table (exclusivity lemma)"
				if !declared[gn] && okk {
					why = "enumerable frozen rule table (constant keys, function values, never written after init) ranged in a function under contract, whose map loops are proved for every iteration order"
				}
				if !okk {
					why = "NOT a declared table, or not an enumerable frozen rule table ranged in a function under contract: the result may depend on map iteration order"
				}
				p := e.Fset.Position(rg.Pos())
				jobs = append(jobs, structJob(fmt.Sprintf("%s/global-map-range[%s]", k, gn), "global-map-range", okk,
					fmt.Sprintf("range over package-level map %s at %s:%d: %s", gn, p.Filename, p.Line, why), fmt.Sprintf("%s:%d", p.Filename, p.Line)))
			}
		}
	}
	jobs = append(jobs, structJob("module/global-map-range/summary", "global-map-range", true, fmt.Sprintf("%d ranges over package-level maps in %d reachable functions", n, len(names)), ""))
	return jobs
}
