// dir: loader
// Demonstrations for the loader/graph/validation "fix:" commits. Each case crashed, hung or was
// silently wrong on the pinned tree (cebd062).
package loader_test

import (
	"context"
	"os"
	"path/filepath"
	"testing"
	"time"

	"github.com/compose-spec/compose-go/v2/loader"
	"github.com/compose-spec/compose-go/v2/types"
)

func loadDir(t *testing.T, files map[string]string, main string, opts ...func(*loader.Options)) (p *types.Project, err error, panicked any, hung bool) {
	t.Helper()
	dir := t.TempDir()
	for n, c := range files {
		if e := os.WriteFile(filepath.Join(dir, n), []byte(c), 0o600); e != nil {
			t.Fatal(e)
		}
	}
	type res struct {
		p   *types.Project
		err error
		pan any
	}
	ch := make(chan res, 1)
	go func() {
		var r res
		defer func() { r.pan = recover(); ch <- r }()
		o := append([]func(*loader.Options){func(o *loader.Options) { o.SetProjectName("demo", true); o.SkipResolveEnvironment = true }}, opts...)
		r.p, r.err = loader.LoadWithContext(context.Background(), types.ConfigDetails{WorkingDir: dir,
			ConfigFiles: []types.ConfigFile{{Filename: filepath.Join(dir, main)}}, Environment: map[string]string{}}, o...)
	}()
	select {
	case r := <-ch:
		return r.p, r.err, r.pan, false
	case <-time.After(5 * time.Second):
		return nil, nil, nil, true
	}
}

func TestLoaderDefects(t *testing.T) {
	t.Run("extends-without-service", func(t *testing.T) {
		_, err, p, _ := loadDir(t, map[string]string{"c.yaml": "services: {a: {image: x, extends: {file: b.yaml}}}", "b.yaml": "services: {b: {image: y}}"}, "c.yaml")
		if p != nil {
			t.Fatalf("PANIC: %v", p)
		}
		if err == nil {
			t.Fatal("expected an error")
		}
	})
	t.Run("extends-file-number", func(t *testing.T) {
		_, err, p, _ := loadDir(t, map[string]string{"c.yaml": "services: {a: {image: x, extends: {service: b, file: 5}}, b: {image: y}}"}, "c.yaml")
		if p != nil {
			t.Fatalf("PANIC: %v", p)
		}
		if err == nil {
			t.Fatal("expected an error")
		}
	})
	t.Run("extends-null-base-keeps-extends", func(t *testing.T) {
		prj, err, p, _ := loadDir(t, map[string]string{"c.yaml": "services: {a: {image: x, extends: {file: base.yaml, service: b}}}", "base.yaml": "services:\n  b:\n"}, "c.yaml")
		if p != nil {
			t.Fatalf("PANIC: %v", p)
		}
		if err == nil && prj.Services["a"].Extends != nil {
			t.Fatalf("service still carries extends: %+v", prj.Services["a"].Extends)
		}
	})
	t.Run("include-with-scalar-section", func(t *testing.T) {
		_, err, p, _ := loadDir(t, map[string]string{"c.yaml": "include: [inc.yaml]\nvolumes: abc\nservices: {a: {image: x}}", "inc.yaml": "volumes: {v: {}}"}, "c.yaml")
		if p != nil {
			t.Fatalf("PANIC: %v", p)
		}
		if err == nil {
			t.Fatal("expected an error")
		}
	})
	t.Run("alias-cycle-through-merge-key", func(t *testing.T) {
		_, err, p, hung := loadDir(t, map[string]string{"c.yaml": "services:\n  a: &x\n    image: y\n    <<: *x\n"}, "c.yaml")
		if hung {
			t.Fatal("HANG: load did not return within 5s")
		}
		if p != nil {
			t.Fatalf("PANIC: %v", p)
		}
		if err == nil {
			t.Fatal("expected a cycle error")
		}
	})
	t.Run("external-string-without-interpolation", func(t *testing.T) {
		_, _, p, _ := loadDir(t, map[string]string{"c.yaml": "services: {a: {image: x}}\nvolumes: {v: {external: \"true\"}}"}, "c.yaml", func(o *loader.Options) { o.SkipInterpolation = true })
		if p != nil {
			t.Fatalf("PANIC: %v", p)
		}
	})
	t.Run("cycle-detection-independent-of-map-order", func(t *testing.T) {
		accepted := 0
		for i := 0; i < 60; i++ {
			_, err, p, _ := loadDir(t, map[string]string{"c.yaml": "services:\n  a:\n    image: x\n    depends_on:\n      a: {condition: service_started}\n      zzz: {condition: service_started, required: false}\n  zzz: {image: y, profiles: [p]}\n"}, "c.yaml")
			if p != nil {
				t.Fatalf("PANIC: %v", p)
			}
			if err == nil {
				accepted++
			}
		}
		if accepted != 0 {
			t.Fatalf("self-dependency cycle accepted in %d of 60 loads", accepted)
		}
	})
}
