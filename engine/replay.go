package main

// replay.go — counterexample extraction and replay on the real code (go test -overlay).

func candidateModel(j *Job) (map[string]any, bool) { return nil, false }

func tryReplay(e *Engine, j *Job, model map[string]any) map[string]any {
	return map[string]any{"confirmed": false, "reason": "replay not available for this obligation kind"}
}
