#!/usr/bin/env python3
"""reclaim.py <sweep -v -with-excepted output> [--apply]
Inverse of triage.py: an `except` item whose obligations ALL discharge on the reference tree is
removed from the contract (the obligation is claimed again). Run after engine or contract improvements."""
import re, sys, glob, collections
out = open(sys.argv[1]).read().splitlines()
apply = '--apply' in sys.argv
ok = collections.defaultdict(int); bad = collections.defaultdict(int)
names = []
for l in out:
    st = re.search(r'~(\S+)\s*$', l)
    st = st.group(1) if st else ''
    m = re.match(r'\s+ok\s+(\S+)\s', l)
    if m: names.append((m.group(1), True, st)); continue
    m = re.match(r'\s+(failed|unknown:\S+)\s+(\S.*?)\s+@', l)
    if m: names.append((m.group(2), False, st))
def status(fn, item):
    pre = fn + '/' + item
    o = b = 0
    for n, good, st in names:
        if ('@' in item and st == item and n.startswith(fn + '/')) or ('@' not in item and (n == pre or n.startswith(pre + '['))):
            if good: o += 1
            else: b += 1
    return o, b
removed = 0
for f in sorted(glob.glob('/repo/*/verif_contracts*.go')):
    pkg = f.split('/')[2]
    lines = open(f).read().split('\n'); cur = None; changed = False
    for i, l in enumerate(lines):
        m = re.match(r'//@\s+func\s+(\S.*)$', l)
        if m: cur = pkg + '.' + m.group(1).strip(); continue
        m = re.match(r'(//@\s+except\s+)([^:]+)(:.*)$', l)
        if m and cur:
            items = [x.strip() for x in m.group(2).split(',') if x.strip()]
            keep = []
            for it in items:
                o, b = status(cur, it)
                if o > 0 and b == 0:
                    removed += 1
                    print("reclaim", cur, it)
                else:
                    keep.append(it)
            if len(keep) != len(items):
                changed = True
                lines[i] = (m.group(1) + ', '.join(keep) + ' ' + m.group(3)) if keep else None
    if changed and apply:
        open(f, 'w').write('\n'.join(x for x in lines if x is not None))
print("reclaimed:", removed)
