#!/usr/bin/env python3
"""status.py — per-property table of what is under contract (active / inactive clauses, excepted safety
obligations) from the contract files in /repo plus the last evidence files. Output: markdown."""
import re, glob, json, os, collections
act = collections.Counter(); inact = collections.Counter(); exc = collections.Counter(); fns = collections.defaultdict(set)
for f in sorted(glob.glob('/repo/*/verif_contracts*.go')):
    pkg = f.split('/')[2]; cur = None; curprops = set(); curexc = 0
    def flush():
        for p in curprops: exc[p] += curexc
    for ln in list(open(f)) + ['//@ func END']:
        m = re.match(r'//@\s+func\s+(\S.*)$', ln)
        if m:
            flush(); cur = pkg + '.' + m.group(1).strip(); curprops = set(); curexc = 0; continue
        m = re.match(r'//@(\??)\s+(nopanic|ensures|invariant|decreases)\[([A-Z0-9,]+)\]', ln)
        if m and cur:
            props = m.group(3).split(',')
            for p in props:
                fns[p].add(cur)
                if m.group(2) == 'nopanic':
                    curprops.add(p)
                elif m.group(1) == '?': inact[p] += 1
                else: act[p] += 1
        m = re.match(r'//@\s+except\s+([^:]+):', ln)
        if m and cur:
            curexc += len([x for x in m.group(1).split(',') if x.strip()])
print("| id | functions | active functional clauses | inactive (`//@?`) clauses | excepted safety/precondition obligations | obligations discharged (quick) | wall s |")
print("|---|---|---|---|---|---|---|")
for i in range(1, 21):
    p = 'C%02d' % i
    ev = {}
    try: ev = json.load(open('/verif/evidence/%s.json' % p))
    except Exception: pass
    c = ev.get('coverage', {})
    print("| %s | %d | %d | %d | %d | %s/%s | %s |" % (p, len(fns[p]), act[p], inact[p], exc[p], c.get('discharged', '-'), c.get('obligations', '-'), round(ev.get('wall_s', 0))))
