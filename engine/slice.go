package main

// slice.go — cone-of-influence slicing of the assumed facts of one obligation. Dropping an assumed
// fact only weakens the hypotheses, so slicing can never make a false obligation provable.

import (
	"strings"
)

type factInfo struct {
	syms   []string
	defOf  string // non-empty when the fact is `(= name term)` for a declared constant `name`
	always bool   // closed quantified axiom etc.
}

var smtBuiltins = map[string]bool{"assert": true, "and": true, "or": true, "not": true, "ite": true, "select": true, "store": true, "forall": true, "exists": true,
	"true": true, "false": true, "as": true, "const": true, "Array": true, "Int": true, "Bool": true, "Str": true, "Any": true, "Slice": true, "F": true, "div": true, "mod": true, "abs": true,
	"_": true, "is": true, "let": true, "distinct": true, "pattern": true}

func smtSymbols(s string) []string {
	var out []string
	seen := map[string]bool{}
	i := 0
	n := len(s)
	for i < n {
		c := s[i]
		if c == '(' || c == ')' || c == ' ' || c == '\n' || c == '\t' {
			i++
			continue
		}
		j := i
		for j < n && s[j] != '(' && s[j] != ')' && s[j] != ' ' && s[j] != '\n' && s[j] != '\t' {
			j++
		}
		tok := s[i:j]
		i = j
		if tok == "" {
			continue
		}
		ch := tok[0]
		if ch >= '0' && ch <= '9' || ch == '-' || ch == ':' || ch == '=' || ch == '<' || ch == '>' || ch == '+' || ch == '*' || ch == '!' {
			if !(ch == '=' && len(tok) > 2) {
				continue
			}
		}
		if smtBuiltins[tok] || seen[tok] {
			continue
		}
		seen[tok] = true
		out = append(out, tok)
	}
	return out
}

func (c *FnCtx) factInfos() []factInfo {
	if c.finfo != nil && len(c.finfo) == len(c.facts) {
		return c.finfo
	}
	infos := make([]factInfo, len(c.facts))
	defined := map[string]bool{}
	for i, f := range c.facts {
		fi := factInfo{syms: smtSymbols(f.Text)}
		t := f.Text
		if strings.HasPrefix(t, "(= ") {
			rest := t[3:]
			if k := strings.IndexByte(rest, ' '); k > 0 {
				name := rest[:k]
				if c.declS[name] && !defined[name] && !strings.ContainsAny(name, "()") {
					fi.defOf = name
					defined[name] = true
				}
			}
		}
		if len(fi.syms) == 0 {
			fi.always = true
		}
		// closed quantified axioms over theory symbols only (string axioms, closure axiom)
		if strings.HasPrefix(t, "(forall ") {
			hasConst := false
			for _, s := range fi.syms {
				if c.declS[s] && !c.isFunDecl(s) {
					hasConst = true
					break
				}
			}
			if !hasConst {
				fi.always = true
			}
		}
		infos[i] = fi
	}
	c.finfo = infos
	return infos
}

func (c *FnCtx) isFunDecl(name string) bool { return c.funDecl[name] }

// sliceFacts returns the indices (into c.facts) kept for a goal with the given symbols
func (c *FnCtx) coneOfInfluence(cands []int, goalText string) []int {
	infos := c.factInfos()
	rel := map[string]bool{}
	for _, s := range smtSymbols(goalText) {
		rel[s] = true
	}
	keep := map[int]bool{}
	changed := true
	for changed {
		changed = false
		for _, i := range cands {
			if keep[i] {
				continue
			}
			fi := infos[i]
			take := fi.always
			if !take {
				if fi.defOf != "" {
					take = rel[fi.defOf]
				} else {
					for _, s := range fi.syms {
						if rel[s] && !c.funDecl[s] {
							take = true
							break
						}
					}
				}
			}
			if take {
				keep[i] = true
				changed = true
				for _, s := range fi.syms {
					rel[s] = true
				}
			}
		}
	}
	var out []int
	for _, i := range cands {
		if keep[i] {
			out = append(out, i)
		}
	}
	return out
}
