#!/usr/bin/env python3
"""register.py — (re)build /verif/MANIFEST.json from the per-property claim texts below.
A property is registered only if its check ran green on the reference tree (evidence file present,
violations == 0, discharged == obligations). Otherwise it stays in not_applicable with the reason."""
import json, os, subprocess, sys

CLAIMS = {
 "C01": ("Deductive safety (K1) for every function under contract on the load path: each panic-capable SSA instruction (unchecked type assertion, index, slice, nil-map write, nil dereference, nil function call, interface comparison of uncomparable values, explicit panic) is an obligation discharged for all inputs under the function's requires; result-shape and error-propagation postconditions on the load entry points; cycle-tracker contract (an (file, service) pair seen twice is an error); decreases clauses for the index loops. Ghost assertion (callsite) in applyServiceExtends: every recursion receives a tracker made during this call whose last hop is this service (so an extends chain cannot grow without the tracker growing). NOT decided: stack depth / termination of the recursions across files, panics inside dependencies, the listed non-claims (except lists).",
         "any-tree invariant (no nil map inside an interface) assumed at reads and obliged at writes; sep (acyclic unshared YAML trees) for the frame of recursive walkers; schema validation and yaml/mapstructure are external (havoc); pointer receivers non-nil; mathematical integers."),
 "C02": ("Deductive: tree.Path.Matches against the split-parts specification; K5 table lemmas — the rule tables extracted from the SSA of init are closed (constant keys, never written outside init) and their patterns pairwise exclusive, so 'first match while ranging a map' is a function of the path; every loop over a map inside a verified function is proved with a nondeterministic iterator, i.e. for all iteration orders; K3 global frame — no function reachable from the load/derivation entry points writes a package-level variable outside a section holding a package-level mutex. The comparator of convertIntoSequence identifies equal strings only (the unstable sort has one result); ownership ghost assertion: ExtendService only ever merges into a map made during the call, never into the memoised services entry another extender may share. Structural lemma: every range over a package-level map reachable from the entry points is over a declared table or an enumerable frozen rule table inside a function under contract. NOT decided: chain-level order-independence of multi-level extends, determinism inside dependencies, byte-identity of renderings.",
         "sort/yaml/json encoders assumed to order map keys; mapstructure struct decoding assumed order-independent; reachability for the global frame is a static over-approximation of the call graph."),
 "C03": ("Deductive functional contracts of every canonical transformer (long form is a fixed point, short form maps to the documented long form, unsupported dynamic type or unparsable short form is an error) and of the volume short-syntax parser helpers (bind options, type by path-likeness), plus the KEY=VALUE/list decoders of the value types. KEY=VALUE list entries are cut at the first '=' (ghost assertions at strings.Cut in the MappingWithEquals and Labels decoders). NOT decided: port-range expansion (docker/go-connections), shellwords/units/duration grammars, the rune-scanning loop of ParseVolume as a whole.",
         "assumed contracts of strings.*, nat.ParsePortSpecs, mapstructure (transform.encode is a trusted wrapper), fmt.Sprintf results are arbitrary strings."),
 "C04": ("Deductive, all inputs and all map iteration orders: functional contracts of the merge engine (mergeMappings: untouched keys preserved, new and x- keys taken from the override, result is the base map; mergeYaml: unique-rule dispatch, replace-wholesale rows, generic scalar/map/list rules and error cases), of every merge rule and unicity indexer, enforceUnicity index safety, short-form conversion yields pairwise distinct fresh entries; K5 table lemmas for both rule tables (rows as the property demands, patterns pairwise exclusive). mountIndexer keys are <default path>/<name> for short grants and grants without target (fmt.Sprintf modelled as concatenation), so short and long grants of the same target collide. NOT decided: end-to-end 'split sources load to the single-document project'.",
         "sep for recursive walkers; any-tree invariant; strings/slices/fmt models."),
 "C05": ("Deductive: deepClone yields fresh maps and lists (a base shared by two extenders stays intact), cycleTracker.Add reports a repeated (file, service) pair and never mutates the receiver, applyServiceExtends error cases (missing service reference, non-string file, missing base) and ExtendService = mergeYaml at services.x. Ghost assertions at the call of ExtendService (first argument fresh) and at the recursive call (tracker fresh, last hop = this service). The recursion into a same-file base is only made for a declared service (missing base is an error). NOT decided: transitivity over chains, visit-order independence, equality with the flattened document, base-directory obligations that depend on context values.",
         "context.Context values, ResourceLoader implementations and file loads are external (havoc)."),
 "C06": ("Deductive: importResource (absent name added, existing entries keep their value, conflict is an error, non-mapping sections are errors) for all iteration orders, importResources covers exactly the five sections, loadIncludeConfig short/long forms. Each included file is loaded with exactly the parent environment (which wins) plus its own env-file variables (ghost assertion at loadYamlModel; Mapping.Merge has a proved frame). NOT decided: paste equivalence end to end, environment layering through dotenv/filepath (external), nesting.",
         "reflect.DeepEqual is an arbitrary boolean; filepath.Join/os.Stat external."),
 "C07": ("Deductive safety and functional contracts in package template: brace matcher result range, operators decline without their separator and report 'applied' with it, error shapes, partition/SplitN safety where the separator is a literal. NOT decided: operator value semantics through callback results (no term for applying a function value), tokenisation by regexp, nesting.",
         "regexp and callbacks are havoc; strings.* models."),
 "C08": ("Deductive: recursiveInterpolate preserves shape one level deep, non-string scalars identical, scalars never error; getCasterForPath unique match; toBoolean/toInt*/toFloat* contracts; K5 join re-derived on every run from schema/compose-spec.json x go/types x cast table x transformer table: every schema leaf admitting a string next to boolean/integer/number decodes into a Go field reachable by the interpolation cast, the decode-time cast, a custom decoder or a canonical transformer. Structural lemma: every converter named by the interpolation cast table is also the one the decode-time hook loader.cast calls (shared converters). NOT decided: `$`->`$$` equivalence (regexp), agreement of the two conversions on every text (strconv).",
         "cast table rows obtained by executing the package initialisers of the real code (input-free); strconv external."),
 "C09": ("Deductive marshaller contracts of the hand-written renderers (SSHKey, EnvFile, UlimitsConfig, UnitBytes, Duration, HostsList, ShellCommand): the rendered short form is the one the decoder accepts. ConfigObjConfig: the YAML and JSON renderings are of the same blanked copy (content dropped when the config comes from the environment), stated with unbox() on the returned/marshalled interface value. Structural `rendered` rules: ServiceDependency.Required and EnvFile.Required (absent means true) carry no omitempty. NOT decided: the whole round trip through parser, schema, canonicalisation and reflection-driven decoding; the tag lemma was not built.",
         "yaml.v3 / encoding/json honour Marshaler and tags (assumed)."),
 "C10": ("Deductive: checkConsistency — each rule (image or build, dockerfile xor inline, platform in build.platforms, network_mode excludes networks, networks/volumes/secrets/configs declared, memory/pids agreement, watch target, secret source) holds for every service when no error is returned, proved with the map-loop invariant for all orders; validation.check* rules (external with creation parameters, file object sources, device requests) with their converse error cases; graph cycle check safety. NOT decided: acyclicity soundness lemma (K6 not built), rules that need callee contracts in other packages (depends_on targets through GetService).",
         "fmt.Sprintf arbitrary; graph generics verified on the generic body."),
 "C11": ("Deductive: every default sets its key only when absent and to the documented value (port protocol/mode, build context, secret target via transformer tables, device count, depends_on condition/required, env_file required), normalizeNetworks (default network iff neither network_mode nor networks, explicit values untouched), setNameFromKey (explicit names never overwritten), implicit depends_on entries never overwrite declared ones (loop invariants, all orders). NOT decided: `<project>_<key>` naming text (fmt.Sprintf), origin independence.",
         "fmt.Sprintf/strconv arbitrary."),
 "C12": ("Deductive: every resolver (absPath, absContextPath, absExtendsPath, maybeUnixPath, absVolumeMount, volumeDriverOpts, ExpandUser, isWindowsAbs/volumeNameLen with loop invariants and decreases): absolute, URL-like/remote, Windows-absolute and non-path values are returned unchanged, only bind mounts and local bind devices are touched, other keys framed; the resolver table rows are preconditions of the walker obliged where the table literal is built, and the walker dispatches over the bound methods. Absoluteness is decided on the ~-expanded value and a value absolute once expanded is returned expanded (res_ExpandUser_1). NOT decided: relative => Join(base, v) text (filepath.Join variadic, external), symlinks, per-origin base directories.",
         "filepath/path/os external; sep for the walker."),
 "C13": ("Deductive, sequential facts only: enter/done/ready/skip/visit contracts (status only moves absent -> entered -> visited under the mutex, ready iff all dependencies visited), graph construction does not modify the project, roots/leaves/adjacent nodes. Ghost assertion: the errgroup limit is maxConcurrency + 1 (one slot for the coordinator). NOT applicable to this technique and NOT decided: all interleavings, the concurrency bound, liveness, first-error propagation.",
         "goroutines, channels, errgroup and select are not interleaved (external)."),
 "C14": ("Deductive ownership: generated contracts (from go/types) for the 60 deriveDeepCopy functions — every field assigned, pointer/map/slice fields nil iff the source's and otherwise fresh; Project/ServiceConfig deepCopy fresh; derivations (WithProfiles, WithServicesDisabled, WithoutUnnecessaryResources, marshal options) store only fresh objects into the result. Slim ownership chain proved end to end: deriveDeepCopy of the services map -> deriveDeepCopyProject -> deepCopy -> WithServicesDisabled / WithSelectedServices: every container held by a service of the result is made during the call (mapsFresh), result and result.Services fresh. The same chain for networks/volumes/secrets/configs (net/vol/sec/cfgFresh) up to WithoutUnnecessaryResources; all frame obligations proved with frame() loop invariants (pure for deepCopy, WithProfiles, WithServicesDisabled, WithoutUnnecessaryResources and the generated copies). NOT decided: frames of the map/slice copy loops (listed as not claimed), WithSelectedServices functional clauses.",
         "copy() havocs the destination row; dynamic callbacks external."),
 "C15": ("Deductive: HasProfile characterisation, AllServices, WithProfiles (dom preserved, Profiles' = profiles, wf'), WithServicesDisabled (moved services, no remaining dependency on a moved one), WithoutUnnecessaryResources subset direction, getServicesByNames. NOT decided: exact characterisations that need nested-loop names, determinism as a relational property.",
         "see C14."),
 "C16": ("Deductive: MappingWithEquals.OverrideBy/Resolve/RemoveEmpty, Mapping.Merge (never overrides), ToMappingWithEquals, Labels helpers, NewMapping* decoders for all orders; env file lookup order in dotenv.GetEnvFromFile closure. The env-file lookup closure of WithServicesEnvironmentResolved returns the already parsed value first (deref of the stored *string), dotenv.expandVariables consults the lookup function first and earlier lines second (stated over the callback's actual results, dyn1.*). Inline labels override label files (ghost assertion over the values of the final mapping, with deref()). NOT decided: value-level statements needing *string dereference in full, file system behaviour.",
         "lookup callbacks assumed pure where stated; dotenv parsing per C18."),
 "C17": ("Deductive: cli.withNamePrecedenceLoad (explicit name, then COMPOSE_PROJECT_NAME, else not imperative), WithName, WithOsEnv never overrides, WithEnv, dotenv.GetEnvFromFile lookup consults the current environment first then earlier files. NOT decided: NormalizeProjectName shape (regexp), loader.projectName clauses that cross yaml decoding.",
         "regexp/strings.ToLower/filepath external."),
 "C18": ("Deductive: every panic-capable instruction of the dotenv scanner discharged for all inputs; loop invariant + decreases for the quoted-value scanner; functional postconditions on hasQuotePrefix/isSpace/getStatementStart/locateKeyName/extractVarValue and the env/format helpers. Lookup order of expandVariables over the callback's actual results; the trailing-whitespace trim of unquoted values uses unicode.IsSpace (ghost assertion at strings.TrimRightFunc). One known finding (empty key accepted, pinned by the repository's own test). NOT decided: equality with a reference evaluator of the grammar.",
         "strings.*/regexp/unicode/template.Substitute external."),
 "C19": ("Deductive/structural K3: no function reachable from the load and derivation entry points writes a package-level variable outside init unless it holds a package-level mutex (sufficient sequential condition for the absence of races between concurrent loads on library state). Ghost assertions: result channel of WithServicesTransform buffered for one result per service (no worker can block after cancellation), errgroup limit of the traversal = maxConcurrency + 1 (no deadlock at 1). NOT applicable to this technique and NOT decided: races inside the fan-out/traversal under all schedules, deadlock freedom, writes into caller-owned inputs (projectName stores COMPOSE_PROJECT_NAME into the caller's Environment map).",
         "static call-graph over-approximation; mutex sections assumed atomic."),
 "C20": ("Deductive: marshallOptions.apply works on a fresh copy and leaves the receiver untouched, deriveDeepCopy of SecretConfig copies the marshallContent flag with the value, Project.MarshalJSON/MarshalYAML safety. ConfigObjConfig.MarshalYAML/MarshalJSON render the blanked copy (see C09). NOT decided: the rendered bytes (json/yaml encoders external), FileObjectConfig conversions inside SecretConfig/ConfigObjConfig marshallers where only safety is claimed.",
         "yaml.v3 / encoding/json call Marshal* methods and ignore unexported fields (assumed)."),
}

def run_check(pid):
    r = subprocess.run(["/verif/check.sh", pid, "quick"], capture_output=True, text=True)
    tail = [l for l in r.stdout.splitlines() if l.startswith("property=") or l.startswith("VIOLATION") or l.startswith("ENGINE") or l.startswith("VACUOUS") or l.startswith("SPEC-ERROR")]
    return r.returncode, tail

def main():
    only = [a for a in sys.argv[1:] if not a.startswith("--")]
    m = json.load(open("/verif/MANIFEST.json"))
    checks = {c["property_id"]: c for c in m["checks"]}
    na = {x["property_id"]: x for x in m.get("not_applicable", [])}
    for pid in sorted(CLAIMS):
        if only and pid not in only:
            continue
        if "--no-run" in sys.argv:
            rc, tail = 0, ["(texts refreshed from the last evidence, check not re-run)"]
        else:
            rc, tail = run_check(pid)
        print(pid, "exit", rc, " | ".join(tail[-3:])[:300])
        ok = False
        ev = "/verif/evidence/%s.json" % pid
        if rc == 0 and os.path.exists(ev):
            d = json.load(open(ev))
            ok = d.get("violations") == 0 and d["coverage"]["obligations"] == d["coverage"]["discharged"] and d["coverage"]["obligations"] > 0
        text, note = CLAIMS[pid]
        if ok:
            checks[pid] = {"property_id": pid, "quick_cmd": "/verif/check.sh %s quick" % pid, "thorough_cmd": "/verif/check.sh %s thorough" % pid,
                           "evidence_file": ev, "engine": "govc",
                           "level_claimed": {"category": "proof", "text": text, "design_ref": "DESIGN.md section 7 (as built) and section 3 (%s)" % pid},
                           "level_note": "Trusted base: go/ssa front end, govc VC generator, SMT solvers. " + note,
                           "technique": "contract-based deductive verification (WP over go/ssa + SMT)"}
            na.pop(pid, None)
        else:
            checks.pop(pid, None)
            na[pid] = {"property_id": pid, "reason": "contracts written, but the check is not green on the reference tree yet (exit %d): %s" % (rc, "; ".join(tail[-2:])[:200])}
    m["checks"] = [checks[k] for k in sorted(checks)]
    m["not_applicable"] = [na[k] for k in sorted(na)]
    for e in m["engines"]:
        e["serves_properties"] = sorted(checks)
    json.dump(m, open("/verif/MANIFEST.json", "w"), indent=1)

main()
