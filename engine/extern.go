package main

// extern.go — assumed contracts (models) of functions outside /repo. Every entry here is an
// ASSUMPTION, listed in evidence under trusted_base / assumptions when used.

import (
	"fmt"
	"go/token"
	"go/types"
	"strings"

	"golang.org/x/tools/go/ssa"
)

type externModel func(c *FnCtx, callee *ssa.Function, args []Val, resType types.Type, pos token.Pos) (Val, bool)

var externModels map[string]externModel

func (c *FnCtx) litContent(term string) (string, bool) {
	if term == "str_empty" {
		return "", true
	}
	for s, n := range c.lits {
		if n == term {
			return s, true
		}
	}
	return "", false
}

func (c *FnCtx) usedExtern(name string) { c.E.usedExtern(c.Name, name) }

func (c *FnCtx) hasPrefixTerm(s, p string) string {
	c.declareFun("hasprefix", []Sort{SStr, SStr}, SBool)
	t := fmt.Sprintf("(hasprefix %s %s)", s, p)
	if lit, ok := c.litContent(p); ok {
		var b strings.Builder
		fmt.Fprintf(&b, "(= %s (and (>= (slen %s) %d)", t, s, len(lit))
		for i := 0; i < len(lit); i++ {
			fmt.Fprintf(&b, " (= (sat %s %d) %d)", s, i, lit[i])
		}
		b.WriteString("))")
		c.fact(b.String())
	} else {
		c.fact(fmt.Sprintf("(=> %s (<= (slen %s) (slen %s)))", t, p, s))
	}
	return t
}

func (c *FnCtx) hasSuffixTerm(s, p string) string {
	c.declareFun("hassuffix", []Sort{SStr, SStr}, SBool)
	t := fmt.Sprintf("(hassuffix %s %s)", s, p)
	if lit, ok := c.litContent(p); ok {
		var b strings.Builder
		fmt.Fprintf(&b, "(= %s (and (>= (slen %s) %d)", t, s, len(lit))
		for i := 0; i < len(lit); i++ {
			fmt.Fprintf(&b, " (= (sat %s (+ (- (slen %s) %d) %d)) %d)", s, s, len(lit), i, lit[i])
		}
		b.WriteString("))")
		c.fact(b.String())
	} else {
		c.fact(fmt.Sprintf("(=> %s (<= (slen %s) (slen %s)))", t, p, s))
	}
	return t
}

// containsFacts: contains(s,t) <=> sindex(s,t) >= 0, with position facts
func (c *FnCtx) containsFacts(s, t string) (string, string) {
	c.declareFun("contains", []Sort{SStr, SStr}, SBool)
	c.declareFun("sindex", []Sort{SStr, SStr}, SInt)
	ct := fmt.Sprintf("(contains %s %s)", s, t)
	ix := fmt.Sprintf("(sindex %s %s)", s, t)
	c.fact(fmt.Sprintf("(and (= %s (>= %s 0)) (>= %s (- 1)) (=> (>= %s 0) (and (<= (+ %s (slen %s)) (slen %s)) (= (ssub %s %s (+ %s (slen %s))) %s))))", ct, ix, ix, ix, ix, t, s, s, ix, ix, t, t))
	if lit, ok := c.litContent(t); ok && len(lit) == 1 {
		ch := lit[0]
		c.fact(fmt.Sprintf("(=> (>= %s 0) (= (sat %s %s) %d))", ix, s, ix, ch))
		c.fact(fmt.Sprintf("(forall ((i Int)) (! (=> (and (<= 0 i) (< i (slen %s)) (or (< %s 0) (< i %s))) (not (= (sat %s i) %d))) :pattern ((sat %s i))))", s, ix, ix, s, ch, s))
	} else if ok && len(lit) == 0 {
		c.fact(fmt.Sprintf("(= %s 0)", ix))
	}
	return ct, ix
}

func strVal(t string) Val { return Val{T: t, S: SStr, GT: types.Typ[types.String]} }

func (c *FnCtx) subOf(prefix, s string, left, right bool) Val {
	// result is a substring ssub(s,a,b); left=false => a==0 ; right=false => b==len
	a, b := "0", "(slen "+s+")"
	if left {
		a = c.freshConst("trim_a", SInt)
	}
	if right {
		b = c.freshConst("trim_b", SInt)
	}
	c.fact(fmt.Sprintf("(and (<= 0 %s) (<= %s %s) (<= %s (slen %s)))", a, a, b, b, s))
	n := c.freshConst(prefix, SStr)
	c.fact(fmt.Sprintf("(= %s (ssub %s %s %s))", n, s, a, b))
	return strVal(n)
}

func init() {
	externModels = map[string]externModel{
		"strings.HasPrefix": func(c *FnCtx, f *ssa.Function, a []Val, rt types.Type, pos token.Pos) (Val, bool) {
			c.usedExtern("strings.HasPrefix")
			return Val{T: c.hasPrefixTerm(a[0].T, a[1].T), S: SBool}, true
		},
		"strings.HasSuffix": func(c *FnCtx, f *ssa.Function, a []Val, rt types.Type, pos token.Pos) (Val, bool) {
			c.usedExtern("strings.HasSuffix")
			return Val{T: c.hasSuffixTerm(a[0].T, a[1].T), S: SBool}, true
		},
		"strings.Contains": func(c *FnCtx, f *ssa.Function, a []Val, rt types.Type, pos token.Pos) (Val, bool) {
			c.usedExtern("strings.Contains")
			ct, _ := c.containsFacts(a[0].T, a[1].T)
			return Val{T: ct, S: SBool}, true
		},
		"strings.Index": func(c *FnCtx, f *ssa.Function, a []Val, rt types.Type, pos token.Pos) (Val, bool) {
			c.usedExtern("strings.Index")
			_, ix := c.containsFacts(a[0].T, a[1].T)
			return Val{T: ix, S: SInt}, true
		},
		"strings.IndexByte": func(c *FnCtx, f *ssa.Function, a []Val, rt types.Type, pos token.Pos) (Val, bool) {
			c.usedExtern("strings.IndexByte")
			c.declareFun("sindexb", []Sort{SStr, SInt}, SInt)
			s, b := a[0].T, a[1].T
			ix := fmt.Sprintf("(sindexb %s %s)", s, b)
			c.fact(fmt.Sprintf("(and (>= %s (- 1)) (< %s (slen %s)) (=> (>= %s 0) (= (sat %s %s) %s)))", ix, ix, s, ix, s, ix, b))
			c.fact(fmt.Sprintf("(forall ((i Int)) (! (=> (and (<= 0 i) (< i (slen %s)) (or (< %s 0) (< i %s))) (not (= (sat %s i) %s))) :pattern ((sat %s i))))", s, ix, ix, s, b, s))
			return Val{T: ix, S: SInt}, true
		},
		"strings.LastIndex": func(c *FnCtx, f *ssa.Function, a []Val, rt types.Type, pos token.Pos) (Val, bool) {
			c.usedExtern("strings.LastIndex")
			c.declareFun("slastindex", []Sort{SStr, SStr}, SInt)
			s, t := a[0].T, a[1].T
			ix := fmt.Sprintf("(slastindex %s %s)", s, t)
			c.fact(fmt.Sprintf("(and (>= %s (- 1)) (=> (>= %s 0) (and (<= (+ %s (slen %s)) (slen %s)) (= (ssub %s %s (+ %s (slen %s))) %s))))", ix, ix, ix, t, s, s, ix, ix, t, t))
			return Val{T: ix, S: SInt}, true
		},
		"strings.Cut": func(c *FnCtx, f *ssa.Function, a []Val, rt types.Type, pos token.Pos) (Val, bool) {
			c.usedExtern("strings.Cut")
			s, sep := a[0].T, a[1].T
			ct, ix := c.containsFacts(s, sep)
			before := c.freshConst("cut_before", SStr)
			after := c.freshConst("cut_after", SStr)
			c.fact(fmt.Sprintf("(= %s (ite %s (ssub %s 0 %s) %s))", before, ct, s, ix, s))
			c.fact(fmt.Sprintf("(= %s (ite %s (ssub %s (+ %s (slen %s)) (slen %s)) str_empty))", after, ct, s, ix, sep, s))
			return Val{S: "Tuple", Tup: []Val{strVal(before), strVal(after), {T: ct, S: SBool}}}, true
		},
		"strings.TrimPrefix": func(c *FnCtx, f *ssa.Function, a []Val, rt types.Type, pos token.Pos) (Val, bool) {
			c.usedExtern("strings.TrimPrefix")
			hp := c.hasPrefixTerm(a[0].T, a[1].T)
			n := c.freshConst("trimmed", SStr)
			c.fact(fmt.Sprintf("(= %s (ite %s (ssub %s (slen %s) (slen %s)) %s))", n, hp, a[0].T, a[1].T, a[0].T, a[0].T))
			return strVal(n), true
		},
		"strings.TrimSuffix": func(c *FnCtx, f *ssa.Function, a []Val, rt types.Type, pos token.Pos) (Val, bool) {
			c.usedExtern("strings.TrimSuffix")
			hp := c.hasSuffixTerm(a[0].T, a[1].T)
			n := c.freshConst("trimmed", SStr)
			c.fact(fmt.Sprintf("(= %s (ite %s (ssub %s 0 (- (slen %s) (slen %s))) %s))", n, hp, a[0].T, a[0].T, a[1].T, a[0].T))
			return strVal(n), true
		},
		"strings.TrimSpace": func(c *FnCtx, f *ssa.Function, a []Val, rt types.Type, pos token.Pos) (Val, bool) {
			c.usedExtern("strings.TrimSpace")
			return c.subOf("trimmed", a[0].T, true, true), true
		},
		"strings.Trim": func(c *FnCtx, f *ssa.Function, a []Val, rt types.Type, pos token.Pos) (Val, bool) {
			c.usedExtern("strings.Trim")
			return c.subOf("trimmed", a[0].T, true, true), true
		},
		"strings.TrimLeft": func(c *FnCtx, f *ssa.Function, a []Val, rt types.Type, pos token.Pos) (Val, bool) {
			c.usedExtern("strings.TrimLeft")
			return c.subOf("trimmed", a[0].T, true, false), true
		},
		"strings.TrimRight": func(c *FnCtx, f *ssa.Function, a []Val, rt types.Type, pos token.Pos) (Val, bool) {
			c.usedExtern("strings.TrimRight")
			return c.subOf("trimmed", a[0].T, false, true), true
		},
		"strings.TrimLeftFunc": func(c *FnCtx, f *ssa.Function, a []Val, rt types.Type, pos token.Pos) (Val, bool) {
			c.usedExtern("strings.TrimLeftFunc")
			return c.subOf("trimmed", a[0].T, true, false), true
		},
		"strings.TrimRightFunc": func(c *FnCtx, f *ssa.Function, a []Val, rt types.Type, pos token.Pos) (Val, bool) {
			c.usedExtern("strings.TrimRightFunc")
			return c.subOf("trimmed", a[0].T, false, true), true
		},
		"strings.IndexFunc": func(c *FnCtx, f *ssa.Function, a []Val, rt types.Type, pos token.Pos) (Val, bool) {
			c.usedExtern("strings.IndexFunc")
			// the predicate is called on runes of s only; modelled as pure unless it is a closure with effects
			if a[1].Fn != nil && a[1].Fn.Fn != nil {
				mi := c.E.modInfo(a[1].Fn.Fn).closed()
				c.havocMod(mi.Exist, mi.Fresh, "strings.IndexFunc callback")
			}
			ix := c.freshConst("ixf", SInt)
			c.fact(fmt.Sprintf("(and (>= %s (- 1)) (< %s (slen %s)))", ix, ix, a[0].T))
			// isCharFunc(c) closures: the found byte equals c when c is ASCII
			if a[1].Fn != nil && a[1].Fn.Fn != nil && strings.HasSuffix(a[1].Fn.Fn.Name(), "isCharFunc$1") && len(a[1].Fn.Bindings) == 1 {
				ch := a[1].Fn.Bindings[0].T
				c.fact(fmt.Sprintf("(=> (and (>= %s 0) (>= %s 0) (< %s 128)) (= (sat %s %s) %s))", ix, ch, ch, a[0].T, ix, ch))
			}
			return Val{T: ix, S: SInt}, true
		},
		"strings.Split": func(c *FnCtx, f *ssa.Function, a []Val, rt types.Type, pos token.Pos) (Val, bool) {
			c.usedExtern("strings.Split")
			return c.splitModel(a[0].T, a[1].T, ""), true
		},
		"strings.SplitN": func(c *FnCtx, f *ssa.Function, a []Val, rt types.Type, pos token.Pos) (Val, bool) {
			c.usedExtern("strings.SplitN")
			return c.splitModel(a[0].T, a[1].T, a[2].T), true
		},
		"strings.Join": func(c *FnCtx, f *ssa.Function, a []Val, rt types.Type, pos token.Pos) (Val, bool) {
			c.usedExtern("strings.Join")
			n := c.freshConst("joined", SStr)
			h := c.H(c.strSliceHeap())
			// a single element joins to itself; an empty list to ""
			c.fact(fmt.Sprintf("(=> (= (s_len %s) 0) (= %s str_empty))", a[0].T, n))
			c.fact(fmt.Sprintf("(=> (= (s_len %s) 1) (= %s (select (select %s (s_ref %s)) (s_off %s))))", a[0].T, n, h, a[0].T, a[0].T))
			return strVal(n), true
		},
		"fmt.Errorf": func(c *FnCtx, f *ssa.Function, a []Val, rt types.Type, pos token.Pos) (Val, bool) {
			return Val{T: errNonNil(c), S: SAny}, true
		},
		"errors.New": func(c *FnCtx, f *ssa.Function, a []Val, rt types.Type, pos token.Pos) (Val, bool) {
			return Val{T: errNonNil(c), S: SAny}, true
		},
		"github.com/pkg/errors.New": func(c *FnCtx, f *ssa.Function, a []Val, rt types.Type, pos token.Pos) (Val, bool) {
			return Val{T: errNonNil(c), S: SAny}, true
		},
		"github.com/pkg/errors.Errorf": func(c *FnCtx, f *ssa.Function, a []Val, rt types.Type, pos token.Pos) (Val, bool) {
			return Val{T: errNonNil(c), S: SAny}, true
		},
		"github.com/pkg/errors.Wrap":        wrapModel,
		"github.com/pkg/errors.Wrapf":       wrapModel,
		"github.com/pkg/errors.WithStack":   wrapModel,
		"github.com/pkg/errors.WithMessage": wrapModel,
		"fmt.Sprintf": func(c *FnCtx, f *ssa.Function, a []Val, rt types.Type, pos token.Pos) (Val, bool) {
			return c.sprintfModel(a), true
		},
		"fmt.Sprint": func(c *FnCtx, f *ssa.Function, a []Val, rt types.Type, pos token.Pos) (Val, bool) {
			r := c.freshConst("sprint", SStr)
			// one operand: a bool prints as "true"/"false", a string as itself (anything else: arbitrary string)
			if len(a) == 1 && a[0].S == SSlice {
				c.usedExtern("fmt.Sprint of one operand: bool -> \"true\"/\"false\", string -> itself")
				hn, _ := c.M.SliceHeap(types.NewInterfaceType(nil, nil))
				sl := a[0].T
				el := fmt.Sprintf("(select (select %s (s_ref %s)) (s_off %s))", c.H(hn), sl, sl)
				c.fact(fmt.Sprintf("(=> (and (= (s_len %s) 1) ((_ is a_bool) %s)) (= %s (ite (a_b %s) %s %s)))", sl, el, r, el, c.strLit("true"), c.strLit("false")))
				c.fact(fmt.Sprintf("(=> (and (= (s_len %s) 1) ((_ is a_str) %s)) (= %s (a_s %s)))", sl, el, r, el))
			}
			return strVal(r), true
		},
		"strconv.ParseBool": func(c *FnCtx, f *ssa.Function, a []Val, rt types.Type, pos token.Pos) (Val, bool) {
			v := c.genericExtern(f, a, rt, pos)
			if len(a) == 1 && a[0].S == SStr && v.S == "Tuple" && len(v.Tup) == 2 && v.Tup[0].S == SBool {
				c.usedExtern("strconv.ParseBool: \"true\" -> true, \"false\" -> false")
				c.fact(fmt.Sprintf("(=> (= %s %s) %s)", a[0].T, c.strLit("true"), v.Tup[0].T))
				c.fact(fmt.Sprintf("(=> (= %s %s) (not %s))", a[0].T, c.strLit("false"), v.Tup[0].T))
			}
			return v, true
		},
		"reflect.DeepEqual": func(c *FnCtx, f *ssa.Function, a []Val, rt types.Type, pos token.Pos) (Val, bool) {
			c.usedExtern("reflect.DeepEqual")
			return Val{T: c.freshConst("deq", SBool), S: SBool}, true
		},
		"sort.Strings": func(c *FnCtx, f *ssa.Function, a []Val, rt types.Type, pos token.Pos) (Val, bool) {
			c.usedExtern("sort.Strings")
			row := c.freshConst("sorted", "(Array Int Str)")
			c.permutationFacts(row, fmt.Sprintf("(select %s (s_ref %s))", c.H(c.strSliceHeap()), a[0].T), a[0].T)
			c.setH(c.strSliceHeap(), fmt.Sprintf("(store %s (s_ref %s) %s)", c.H(c.strSliceHeap()), a[0].T, row))
			return Val{S: "Tuple"}, true
		},
	}
	// fmt.Sprintf with a constant format made of literal text and %s / %v verbs only: when every argument is a
	// string held in the variadic []any, the result is the concatenation (any other case: arbitrary string)
	externModels["fmt.Sprintf"] = func(c *FnCtx, f *ssa.Function, a []Val, rt types.Type, pos token.Pos) (Val, bool) {
		if len(a) != 2 || a[0].S != SStr || a[1].S != SSlice {
			return Val{}, false
		}
		lit, ok := "", false
		if a[0].T == "str_empty" {
			lit, ok = "", true
		}
		for txt, name := range c.lits {
			if name == a[0].T {
				lit, ok = txt, true
			}
		}
		if !ok {
			return Val{}, false
		}
		norm := strings.ReplaceAll(lit, "%v", "%s")
		pieces := strings.Split(norm, "%s")
		for _, pc := range pieces {
			if strings.Contains(pc, "%") {
				return Val{}, false
			}
		}
		c.usedExtern("fmt.Sprintf with a %s/%v-only constant format: concatenation when every argument is a string")
		n := len(pieces) - 1
		hn, _ := c.M.SliceHeap(types.NewInterfaceType(nil, nil))
		h := c.H(hn)
		sl := a[1].T
		term := c.strLit(pieces[0])
		conds := []string{fmt.Sprintf("(= (s_len %s) %d)", sl, n)}
		for i := 0; i < n; i++ {
			el := fmt.Sprintf("(select (select %s (s_ref %s)) (+ (s_off %s) %d))", h, sl, sl, i)
			conds = append(conds, fmt.Sprintf("((_ is a_str) %s)", el))
			term = fmt.Sprintf("(sconcat %s (a_s %s))", term, el)
			if pieces[i+1] != "" {
				term = fmt.Sprintf("(sconcat %s %s)", term, c.strLit(pieces[i+1]))
			}
		}
		r := c.freshConst("sprintf", SStr)
		if n == 0 {
			c.fact(fmt.Sprintf("(= %s %s)", r, term))
		} else {
			c.fact(fmt.Sprintf("(=> (and %s) (= %s %s))", strings.Join(conds, " "), r, term))
		}
		return Val{T: r, S: SStr, GT: types.Typ[types.String]}, true
	}
	for _, n := range []string{"cmp.Compare", "strings.Compare"} {
		externModels[n] = func(c *FnCtx, f *ssa.Function, a []Val, rt types.Type, pos token.Pos) (Val, bool) {
			if len(a) != 2 || a[0].S != SStr || a[1].S != SStr {
				return Val{}, false
			}
			c.usedExtern("cmp.Compare/strings.Compare on strings: result in {-1,0,1}, 0 iff equal, antisymmetric")
			r := c.freshConst("cmp", SInt)
			c.fact(fmt.Sprintf("(and (>= %s (- 1)) (<= %s 1) (= (= %s 0) (= %s %s)))", r, r, r, a[0].T, a[1].T))
			return Val{T: r, S: SInt}, true
		}
	}
	for _, n := range []string{"slices.Contains", "golang.org/x/exp/slices.Contains"} {
		externModels[n] = func(c *FnCtx, f *ssa.Function, a []Val, rt types.Type, pos token.Pos) (Val, bool) {
			c.usedExtern("slices.Contains")
			st, ok := types.Unalias(f.Params[0].Type()).Underlying().(*types.Slice)
			if !ok {
				return Val{}, false
			}
			hn0, _ := c.M.SliceHeap(st.Elem())
			h := c.H(hn0)
			r := c.freshConst("contains", SBool)
			sk := c.freshConst("sk", SInt)
			s, v := a[0].T, a[1].T
			c.fact(fmt.Sprintf("(=> %s (and (<= 0 %s) (< %s (s_len %s)) (= (select (select %s (s_ref %s)) (+ (s_off %s) %s)) %s)))", r, sk, sk, s, h, s, s, sk, v))
			c.fact(fmt.Sprintf("(=> (not %s) (forall ((i Int)) (! (=> (and (<= 0 i) (< i (s_len %s))) (not (= (select (select %s (s_ref %s)) (+ (s_off %s) i)) %s))) :pattern ((select (select %s (s_ref %s)) (+ (s_off %s) i))))))", r, s, h, s, s, v, h, s, s))
			return Val{T: r, S: SBool}, true
		}
	}
	for _, n := range []string{"slices.Index", "golang.org/x/exp/slices.Index", "slices.IndexFunc", "golang.org/x/exp/slices.IndexFunc"} {
		isFunc := strings.HasSuffix(n, "Func")
		externModels[n] = func(c *FnCtx, f *ssa.Function, a []Val, rt types.Type, pos token.Pos) (Val, bool) {
			c.usedExtern("slices.Index/IndexFunc")
			if isFunc && a[1].Fn != nil && a[1].Fn.Fn != nil {
				c.havocMod(c.E.modInfo(a[1].Fn.Fn).closed().Exist, c.E.modInfo(a[1].Fn.Fn).closed().Fresh, "slices.IndexFunc callback")
				c.E.noteCallbackPanics(c, a[1].Fn.Fn)
			} else if isFunc {
				c.havocAll("slices.IndexFunc unknown callback")
			}
			ix := c.freshConst("six", SInt)
			c.fact(fmt.Sprintf("(and (>= %s (- 1)) (< %s (s_len %s)))", ix, ix, a[0].T))
			return Val{T: ix, S: SInt}, true
		}
	}
	for _, n := range []string{"slices.ContainsFunc", "golang.org/x/exp/slices.ContainsFunc"} {
		externModels[n] = func(c *FnCtx, f *ssa.Function, a []Val, rt types.Type, pos token.Pos) (Val, bool) {
			c.usedExtern("slices.ContainsFunc")
			if a[1].Fn != nil && a[1].Fn.Fn != nil {
				c.havocMod(c.E.modInfo(a[1].Fn.Fn).closed().Exist, c.E.modInfo(a[1].Fn.Fn).closed().Fresh, "slices.ContainsFunc callback")
				c.E.noteCallbackPanics(c, a[1].Fn.Fn)
			} else {
				c.havocAll("slices.ContainsFunc unknown callback")
			}
			return Val{T: c.freshConst("cf", SBool), S: SBool}, true
		}
	}
	for _, n := range []string{"slices.SortFunc", "golang.org/x/exp/slices.SortFunc", "slices.Sort", "golang.org/x/exp/slices.Sort", "slices.SortStableFunc", "golang.org/x/exp/slices.SortStableFunc"} {
		externModels[n] = func(c *FnCtx, f *ssa.Function, a []Val, rt types.Type, pos token.Pos) (Val, bool) {
			c.usedExtern("slices.Sort*")
			st, ok := types.Unalias(f.Params[0].Type()).Underlying().(*types.Slice)
			if !ok {
				return Val{}, false
			}
			hn, es := c.M.SliceHeap(st.Elem())
			if len(a) > 1 && a[1].Fn != nil && a[1].Fn.Fn != nil {
				cb := a[1].Fn.Fn
				// the comparator is only ever applied to elements of the slice: its preconditions are
				// obliged for every pair of elements (assumed contract of slices.SortFunc)
				if spec := c.E.Specs.Funcs[fnKey(cb)]; spec != nil && len(cb.Params) == 2 {
					names := c.calleeEnv(cb, a[1].Fn.Bindings, nil)
					h := c.H(hn)
					el := func(q string) Val {
						return Val{T: fmt.Sprintf("(select (select %s (s_ref %s)) (+ (s_off %s) %s))", h, a[0].T, a[0].T, q), S: es, GT: st.Elem()}
					}
					names[cb.Params[0].Name()] = el("qsi")
					names[cb.Params[1].Name()] = el("qsj")
					for i, cl := range spec.Requires {
						env := &specEnv{c: c, vars: names, st: c.st, old: c.st, bound: map[string]Val{}, callee: cb}
						t, err := env.evalBool(cl.Expr)
						if err != nil {
							c.E.specError(c.Name+" (sort callback "+fnKey(cb)+")", cl, err)
							continue
						}
						o := c.oblige("precondition", fmt.Sprintf("(forall ((qsi Int) (qsj Int)) (=> (and (<= 0 qsi) (< qsi (s_len %s)) (<= 0 qsj) (< qsj (s_len %s))) %s))", a[0].T, a[0].T, t), fmt.Sprintf("%s/requires%d for all element pairs", fnKey(cb), i+1), pos)
						o.Props = cl.Props
					}
				}
				c.havocMod(c.E.modInfo(cb).closed().Exist, c.E.modInfo(cb).closed().Fresh, "sort callback")
				c.E.noteCallbackPanics(c, cb)
			}
			row := c.freshConst("sorted", Sort("(Array Int "+string(es)+")"))
			c.permutationFacts(row, fmt.Sprintf("(select %s (s_ref %s))", c.H(hn), a[0].T), a[0].T)
			c.setH(hn, fmt.Sprintf("(store %s (s_ref %s) %s)", c.H(hn), a[0].T, row))
			return Val{S: "Tuple"}, true
		}
	}
}

func wrapModel(c *FnCtx, f *ssa.Function, a []Val, rt types.Type, pos token.Pos) (Val, bool) {
	e := c.freshConst("wrapped", SAny)
	c.fact(fmt.Sprintf("(= (= %s a_nil) (= %s a_nil))", e, a[0].T))
	return Val{T: e, S: SAny}, true
}

func (c *FnCtx) sprintfModel(a []Val) Val {
	n := c.freshConst("sprintf", SStr)
	return strVal(n)
}

func (c *FnCtx) splitModel(s, sep, n string) Val {
	c.declareFun("splitcount", []Sort{SStr, SStr}, SInt)
	c.declareFun("splitpart", []Sort{SStr, SStr, SInt}, SStr)
	r := c.allocRef("split")
	cnt := c.freshConst("nparts", SInt)
	row := c.freshConst("parts", "(Array Int Str)")
	sepLit, sepKnown := c.litContent(sep)
	if sl, ok := c.litContent(s); ok && sepKnown && sepLit == "." {
		c.literalSplitFacts(s, sl)
	}
	if n == "" {
		c.fact(fmt.Sprintf("(= %s (splitcount %s %s))", cnt, s, sep))
		if sepKnown && sepLit != "" {
			c.fact(fmt.Sprintf("(>= %s 1)", cnt))
		} else {
			c.fact(fmt.Sprintf("(>= %s 0)", cnt))
		}
		c.fact(fmt.Sprintf("(forall ((i Int)) (! (= (select %s i) (splitpart %s %s i)) :pattern ((select %s i))))", row, s, sep, row))
	} else {
		// SplitN: n > 0 => at most n parts; n == 0 => nil; n < 0 => all
		c.fact(fmt.Sprintf("(and (>= %s 0) (=> (> %s 0) (<= %s %s)) (=> (= %s 0) (= %s 0)))", cnt, n, cnt, n, n, cnt))
		if sepKnown && sepLit != "" {
			c.fact(fmt.Sprintf("(=> (not (= %s 0)) (>= %s 1))", n, cnt))
			ct, ix := c.containsFacts(s, sep)
			// n == 2 : exact
			c.fact(fmt.Sprintf("(=> (= %s 2) (and (= (= %s 2) %s) (=> (= %s 1) (= (select %s 0) %s)) (=> (= %s 2) (and (= (select %s 0) (ssub %s 0 %s)) (= (select %s 1) (ssub %s (+ %s (slen %s)) (slen %s)))))))",
				n, cnt, ct, cnt, row, s, cnt, row, s, ix, row, s, ix, sep, s))
		}
	}
	c.setH(c.strSliceHeap(), fmt.Sprintf("(store %s %s %s)", c.H(c.strSliceHeap()), r, row))
	res := c.freshConst("splitres", SSlice)
	c.fact(fmt.Sprintf("(= %s (mk_slice %s 0 %s %s))", res, r, cnt, cnt))
	return Val{T: res, S: SSlice, GT: sliceStr}
}

func (c *FnCtx) strSliceHeap() string {
	hn, _ := c.M.SliceHeap(types.Typ[types.String])
	return hn
}

// permutationFacts: ASSUMED contract of the sort functions — the sorted row is a permutation of the
// old one on the slice's window, and untouched elsewhere.
func (c *FnCtx) permutationFacts(newRow, oldRow, sl string) {
	c.fresh++
	p := fmt.Sprintf("perm!%d", c.fresh)
	q := fmt.Sprintf("perminv!%d", c.fresh)
	c.declareFun(p, []Sort{SInt}, SInt)
	c.declareFun(q, []Sort{SInt}, SInt)
	lo := fmt.Sprintf("(s_off %s)", sl)
	hi := fmt.Sprintf("(+ (s_off %s) (s_len %s))", sl, sl)
	c.fact(fmt.Sprintf("(forall ((i Int)) (! (=> (and (<= %s i) (< i %s)) (and (<= %s (%s i)) (< (%s i) %s) (= (select %s i) (select %s (%s i))))) :pattern ((select %s i))))", lo, hi, lo, p, p, hi, newRow, oldRow, p, newRow))
	c.fact(fmt.Sprintf("(forall ((j Int)) (! (=> (and (<= %s j) (< j %s)) (and (<= %s (%s j)) (< (%s j) %s) (= (select %s (%s j)) (select %s j)))) :pattern ((select %s j))))", lo, hi, lo, q, q, hi, newRow, q, oldRow, oldRow))
	c.fact(fmt.Sprintf("(forall ((i Int)) (! (=> (or (< i %s) (>= i %s)) (= (select %s i) (select %s i))) :pattern ((select %s i))))", lo, hi, newRow, oldRow, newRow))
}

func init() {
	for _, n := range []string{"maps.Keys", "golang.org/x/exp/maps.Keys"} {
		externModels[n] = func(c *FnCtx, f *ssa.Function, a []Val, rt types.Type, pos token.Pos) (Val, bool) {
			c.usedExtern("maps.Keys returns a fresh slice holding exactly the keys of the map")
			mt, ok := types.Unalias(f.Params[0].Type()).Underlying().(*types.Map)
			if !ok {
				return Val{}, false
			}
			_, dn, ks, _, _ := c.M.MapHeaps(mt)
			st, ok := types.Unalias(rt).Underlying().(*types.Slice)
			if !ok {
				return Val{}, false
			}
			hn, es := c.M.SliceHeap(st.Elem())
			if es != ks {
				return Val{}, false
			}
			r := c.allocRef("keys")
			row := c.freshConst("keysrow", Sort("(Array Int "+string(es)+")"))
			n := c.freshConst("nkeys", SInt)
			c.fresh++
			ix := fmt.Sprintf("keyidx!%d", c.fresh)
			c.declareFun(ix, []Sort{ks}, SInt)
			d := fmt.Sprintf("(select %s %s)", c.H(dn), a[0].T)
			c.fact(fmt.Sprintf("(and (>= %s 0) (=> (= %s 0) (= %s 0)))", n, a[0].T, n))
			c.fact(fmt.Sprintf("(forall ((i Int)) (! (=> (and (<= 0 i) (< i %s)) (and (not (= %s 0)) (select %s (select %s i)))) :pattern ((select %s i))))", n, a[0].T, d, row, row))
			c.fact(fmt.Sprintf("(forall ((k %s)) (! (=> (and (not (= %s 0)) (select %s k)) (and (<= 0 (%s k)) (< (%s k) %s) (= (select %s (%s k)) k))) :pattern ((select %s k))))", ks, a[0].T, d, ix, ix, n, row, ix, d))
			c.setH(hn, fmt.Sprintf("(store %s %s %s)", c.H(hn), r, row))
			res := c.freshConst("keys", SSlice)
			c.fact(fmt.Sprintf("(= %s (mk_slice %s 0 %s %s))", res, r, n, n))
			return Val{T: res, S: SSlice, GT: rt}, true
		}
	}
}
