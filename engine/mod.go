package main

// mod.go — static MOD analysis (which heap classes a function may write), at the same
// granularity and naming as the translation's heaps.

import (
	"fmt"
	"go/types"
	"os"
	"sort"
	"strconv"
	"strings"

	"golang.org/x/tools/go/ssa"
)

type ModInfo struct {
	Exist map[string]bool // heaps possibly written at pre-existing objects ("*" = everything)
	Fresh map[string]bool // heaps written only at objects allocated during the call
}

func (e *Engine) structLeaves(si *StructInfo, prefix []int) [][]int {
	var r [][]int
	s := Sort(si.Name)
	cur := e.Model.Struct(s)
	// descend prefix
	for _, i := range prefix {
		cur = e.Model.Struct(cur.Fields[i].Sort)
		if cur == nil {
			return [][]int{append([]int{}, prefix...)}
		}
	}
	var rec func(st *StructInfo, p []int)
	rec = func(st *StructInfo, p []int) {
		for i, f := range st.Fields {
			np := append(append([]int{}, p...), i)
			if sub := e.Model.Struct(f.Sort); sub != nil {
				rec(sub, np)
			} else {
				r = append(r, np)
			}
		}
	}
	rec(cur, prefix)
	return r
}

// addrHeaps: heap names designated by a pointer-valued SSA value, and whether the root object
// is allocated in this function.
func (e *Engine) addrHeaps(addr ssa.Value) ([]string, bool) {
	m := e.Model
	switch a := addr.(type) {
	case *ssa.FieldAddr:
		path := []int{a.Field}
		root := a.X
		for {
			fa, ok := root.(*ssa.FieldAddr)
			if !ok {
				break
			}
			path = append([]int{fa.Field}, path...)
			root = fa.X
		}
		switch r := root.(type) {
		case *ssa.Global:
			return e.globalHeap(r), false
		case *ssa.IndexAddr:
			return e.addrHeapsIndex(r)
		}
		pt, ok := types.Unalias(root.Type()).Underlying().(*types.Pointer)
		if !ok {
			return []string{"*"}, false
		}
		es := m.SortOf(pt.Elem())
		si := m.Struct(es)
		if si == nil {
			hn, _ := m.CellHeap(pt.Elem())
			return []string{hn}, isAlloc(root)
		}
		var names []string
		for _, leaf := range e.structLeaves(si, path) {
			names = append(names, "HF|"+si.Name+"|"+fmtPath(leaf))
		}
		return names, isAlloc(root)
	case *ssa.IndexAddr:
		return e.addrHeapsIndex(a)
	case *ssa.Global:
		return e.globalHeap(a), false
	}
	pt, ok := types.Unalias(addr.Type()).Underlying().(*types.Pointer)
	if !ok {
		return []string{"*"}, false
	}
	es := m.SortOf(pt.Elem())
	if si := m.Struct(es); si != nil {
		var names []string
		for _, leaf := range e.structLeaves(si, nil) {
			names = append(names, "HF|"+si.Name+"|"+fmtPath(leaf))
		}
		return names, isAlloc(addr)
	}
	if at, ok := types.Unalias(pt.Elem()).Underlying().(*types.Array); ok {
		hn, _ := m.SliceHeap(at.Elem())
		return []string{hn}, isAlloc(addr)
	}
	hn, _ := m.CellHeap(pt.Elem())
	return []string{hn}, isAlloc(addr)
}

func isAlloc(v ssa.Value) bool {
	switch v.(type) {
	case *ssa.Alloc, *ssa.MakeMap, *ssa.MakeSlice:
		return true
	}
	return false
}

func (e *Engine) addrHeapsIndex(a *ssa.IndexAddr) ([]string, bool) {
	m := e.Model
	switch u := types.Unalias(a.X.Type()).Underlying().(type) {
	case *types.Slice:
		hn, _ := m.SliceHeap(u.Elem())
		return []string{hn}, isAlloc(a.X)
	case *types.Pointer:
		if at, ok := types.Unalias(u.Elem()).Underlying().(*types.Array); ok {
			hn, _ := m.SliceHeap(at.Elem())
			return []string{hn}, isAlloc(a.X)
		}
	}
	return []string{"*"}, false
}

func (e *Engine) globalHeap(g *ssa.Global) []string {
	gt := g.Type().(*types.Pointer).Elem()
	gs := e.Model.SortOf(gt)
	return []string{"G|" + g.Pkg.Pkg.Path() + "." + g.Name() + "|" + string(gs)}
}

// writeRoot: the allocation a Store/MapUpdate writes into, when it is an allocation of this function
func (e *Engine) writeRoot(ins ssa.Instruction) ssa.Value {
	var addr ssa.Value
	switch x := ins.(type) {
	case *ssa.Store:
		addr = x.Addr
	case *ssa.MapUpdate:
		return x.Map
	default:
		return nil
	}
	for {
		switch a := addr.(type) {
		case *ssa.FieldAddr:
			addr = a.X
			continue
		case *ssa.IndexAddr:
			addr = a.X
			continue
		}
		return addr
	}
}

// instrMod: heaps written directly by an instruction (not through callees)
func (e *Engine) instrMod(ins ssa.Instruction) (exist []string, fresh []string) {
	m := e.Model
	add := func(names []string, isFresh bool) {
		if isFresh {
			fresh = append(fresh, names...)
		} else {
			exist = append(exist, names...)
		}
	}
	switch x := ins.(type) {
	case *ssa.Store:
		n, f := e.addrHeaps(x.Addr)
		add(n, f)
	case *ssa.MapUpdate:
		mn, dn, _, _, _ := m.MapHeaps(x.Map.Type())
		add([]string{mn, dn}, isAlloc(x.Map))
	case *ssa.Alloc:
		n, _ := e.addrHeaps(x)
		add(n, true)
		fresh = append(fresh, "$wm")
	case *ssa.MakeMap:
		_, dn, _, _, _ := m.MapHeaps(x.Type())
		add([]string{dn}, true)
		fresh = append(fresh, "$wm")
	case *ssa.MakeSlice:
		st := types.Unalias(x.Type()).Underlying().(*types.Slice)
		hn, _ := m.SliceHeap(st.Elem())
		add([]string{hn}, true)
		fresh = append(fresh, "$wm")
	case *ssa.MakeChan, *ssa.MakeClosure:
		fresh = append(fresh, "$wm")
	case *ssa.Convert:
		if m.SortOf(x.Type()) == SSlice && m.SortOf(x.X.Type()) == SStr {
			hn, _ := m.SliceHeap(types.Unalias(x.Type()).Underlying().(*types.Slice).Elem())
			add([]string{hn}, true)
			fresh = append(fresh, "$wm")
		}
	}
	return
}

func (e *Engine) callMod(f *ssa.Function, cc *ssa.CallCommon) (exist []string, fresh []string) {
	m := e.Model
	fresh = append(fresh, "$wm")
	if cc.IsInvoke() {
		if e.pureInvoke(cc.Method.FullName()) || cc.Method.Name() == "Error" || cc.Method.Name() == "String" {
			return
		}
		return []string{"*"}, fresh
	}
	if b, ok := cc.Value.(*ssa.Builtin); ok {
		switch b.Name() {
		case "append", "copy":
			if st, ok := types.Unalias(cc.Args[0].Type()).Underlying().(*types.Slice); ok {
				hn, _ := m.SliceHeap(st.Elem())
				exist = append(exist, hn)
			}
		case "delete", "clear":
			if mt, ok := types.Unalias(cc.Args[0].Type()).Underlying().(*types.Map); ok {
				_, dn, _, _, _ := m.MapHeaps(mt)
				exist = append(exist, dn)
			}
		}
		return
	}
	var callee *ssa.Function
	switch v := cc.Value.(type) {
	case *ssa.Function:
		callee = v
	case *ssa.MakeClosure:
		callee = v.Fn.(*ssa.Function)
	}
	if callee == nil {
		// a value taken out of a rule table: union over the table's functions
		if ti := e.tableOfValue(cc.Value); ti != nil && !ti.Open {
			for _, r := range ti.Rows {
				if r.Fn == nil {
					return []string{"*"}, fresh
				}
				mi := e.modInfo(r.Fn)
				for n := range mi.Exist {
					exist = append(exist, n)
				}
				for n := range mi.Fresh {
					fresh = append(fresh, n)
				}
			}
			return
		}
		// a call through one of f's own function-typed parameters: "whatever that argument may write"
		if pr, ok := cc.Value.(*ssa.Parameter); ok {
			for i, q := range f.Params {
				if q == pr {
					return []string{fmt.Sprintf("cb:%d", i)}, fresh
				}
			}
		}
		// a function type that mentions an unexported type of this module can only be implemented inside
		// the module: union over every function and closure of the module with that signature
		if sig, ok := types.Unalias(cc.Value.Type()).Underlying().(*types.Signature); ok && e.sigClosed(sig) {
			for _, g := range e.fnsWithSig(sig) {
				mi := e.modInfo(g)
				for n := range mi.Exist {
					if strings.HasPrefix(n, "cb:") {
						n = "*"
					}
					exist = append(exist, n)
				}
				for n := range mi.Fresh {
					fresh = append(fresh, n)
				}
			}
			return
		}
		return []string{"*"}, fresh
	}
	if e.inRepo(callee) {
		mi := e.modInfo(callee)
		for n := range mi.Exist {
			if strings.HasPrefix(n, "cb:") {
				ex2, fr2 := e.resolveCb(f, cc, n)
				exist = append(exist, ex2...)
				fresh = append(fresh, fr2...)
				continue
			}
			exist = append(exist, n)
		}
		for n := range mi.Fresh {
			fresh = append(fresh, n)
		}
		return
	}
	ex := e.externMod(callee, cc)
	if n := externName(callee); strings.HasSuffix(n, "maps.Keys") {
		if st, ok := types.Unalias(callee.Signature.Results().At(0).Type()).Underlying().(*types.Slice); ok {
			hn, _ := e.Model.SliceHeap(st.Elem())
			return nil, append(fresh, hn)
		}
	}
	if n := externName(callee); n == "strings.Split" || n == "strings.SplitN" {
		// allocates a fresh []string only
		return nil, append(fresh, ex...)
	}
	return ex, fresh
}

// externMod mirrors genericExtern / extern models.
func (e *Engine) externMod(callee *ssa.Function, cc *ssa.CallCommon) []string {
	m := e.Model
	pp := pkgPathOf(callee)
	name := externName(callee)
	if _, ok := externModels[name]; ok {
		switch {
		case name == "sort.Strings":
			hn, _ := m.SliceHeap(types.Typ[types.String])
			return []string{hn}
		case strings.Contains(name, "slices.Sort"):
			if st, ok := types.Unalias(callee.Params[0].Type()).Underlying().(*types.Slice); ok {
				hn, _ := m.SliceHeap(st.Elem())
				r := []string{hn}
				r = append(r, e.callbackMod(cc, 1)...)
				return r
			}
		case strings.Contains(name, "IndexFunc") || strings.Contains(name, "ContainsFunc"):
			return e.callbackMod(cc, 1)
		case name == "strings.Split" || name == "strings.SplitN":
			hn, _ := m.SliceHeap(types.Typ[types.String])
			return []string{hn}
		}
		return nil
	}
	if !purePkgs[pp] {
		return []string{"*"}
	}
	if !externWritesArgs[pp] {
		return nil
	}
	var r []string
	for _, p := range callee.Params {
		switch u := types.Unalias(p.Type()).Underlying().(type) {
		case *types.Slice:
			hn, _ := m.SliceHeap(u.Elem())
			r = append(r, hn)
		case *types.Pointer:
			es := m.SortOf(u.Elem())
			if si := m.Struct(es); si != nil {
				for _, leaf := range e.structLeaves(si, nil) {
					r = append(r, "HF|"+si.Name+"|"+fmtPath(leaf))
				}
			} else {
				hn, _ := m.CellHeap(u.Elem())
				r = append(r, hn)
			}
		case *types.Map:
			mn, dn, _, _, _ := m.MapHeaps(u)
			r = append(r, mn, dn)
		case *types.Interface:
			return []string{"*"}
		case *types.Signature:
			return []string{"*"}
		}
	}
	return r
}

// resolveCb: the callee may write what its idx-th argument (a function value) writes; at this call site
// that argument is a known function/closure, one of f's own parameters (token passed up), or unknown.
func (e *Engine) resolveCb(f *ssa.Function, cc *ssa.CallCommon, token string) (exist, fresh []string) {
	idx, err := strconv.Atoi(strings.TrimPrefix(token, "cb:"))
	if err != nil || idx >= len(cc.Args) {
		return []string{"*"}, nil
	}
	var g *ssa.Function
	av := cc.Args[idx]
	for {
		if ct, ok := av.(*ssa.ChangeType); ok {
			av = ct.X
			continue
		}
		break
	}
	switch v := av.(type) {
	case *ssa.Parameter:
		if f != nil {
			for i, q := range f.Params {
				if q == v {
					return []string{fmt.Sprintf("cb:%d", i)}, nil
				}
			}
		}
		return []string{"*"}, nil
	case *ssa.Function:
		g = v
	case *ssa.MakeClosure:
		g = v.Fn.(*ssa.Function)
	case *ssa.Const:
		if v.IsNil() {
			return nil, nil
		}
	}
	if g == nil || !e.inRepo(g) {
		return []string{"*"}, nil
	}
	mi := e.modInfo(g)
	for n := range mi.Exist {
		if strings.HasPrefix(n, "cb:") {
			n = "*"
		}
		exist = append(exist, n)
	}
	for n := range mi.Fresh {
		fresh = append(fresh, n)
	}
	return
}

// modAtCall: MOD of callee at a given call site of f, with callback tokens resolved (never contains tokens)
func (e *Engine) modAtCall(f *ssa.Function, cc *ssa.CallCommon, callee *ssa.Function) *ModInfo {
	mi := e.modInfo(callee)
	has := false
	for n := range mi.Exist {
		if strings.HasPrefix(n, "cb:") {
			has = true
		}
	}
	if !has {
		return mi
	}
	r := &ModInfo{Exist: map[string]bool{}, Fresh: map[string]bool{}}
	for n := range mi.Fresh {
		r.Fresh[n] = true
	}
	for n := range mi.Exist {
		if !strings.HasPrefix(n, "cb:") {
			r.Exist[n] = true
			continue
		}
		if cc == nil {
			r.Exist["*"] = true
			continue
		}
		ex, fr := e.resolveCb(nil, cc, n)
		for _, x := range ex {
			if strings.HasPrefix(x, "cb:") {
				x = "*"
			}
			r.Exist[x] = true
		}
		for _, x := range fr {
			r.Fresh[x] = true
		}
	}
	return r
}

// closed: callback tokens read as "anything" (for consumers that have no call site to resolve them at)
func (mi *ModInfo) closed() *ModInfo {
	has := false
	for n := range mi.Exist {
		if strings.HasPrefix(n, "cb:") {
			has = true
		}
	}
	if !has {
		return mi
	}
	r := &ModInfo{Exist: map[string]bool{"*": true}, Fresh: map[string]bool{}}
	for n := range mi.Exist {
		if !strings.HasPrefix(n, "cb:") {
			r.Exist[n] = true
		}
	}
	for n := range mi.Fresh {
		r.Fresh[n] = true
	}
	return r
}

func (e *Engine) sigClosed(sig *types.Signature) bool {
	closed := false
	var visit func(t types.Type, depth int)
	visit = func(t types.Type, depth int) {
		if depth > 4 || closed {
			return
		}
		switch u := types.Unalias(t).(type) {
		case *types.Named:
			if o := u.Obj(); o != nil && o.Pkg() != nil && !o.Exported() &&
				(o.Pkg().Path() == e.ModPath || strings.HasPrefix(o.Pkg().Path(), e.ModPath+"/")) {
				closed = true
			}
		case *types.Pointer:
			visit(u.Elem(), depth+1)
		case *types.Slice:
			visit(u.Elem(), depth+1)
		case *types.Map:
			visit(u.Key(), depth+1)
			visit(u.Elem(), depth+1)
		}
	}
	for i := 0; i < sig.Params().Len(); i++ {
		visit(sig.Params().At(i).Type(), 0)
	}
	for i := 0; i < sig.Results().Len(); i++ {
		visit(sig.Results().At(i).Type(), 0)
	}
	return closed
}

func (e *Engine) fnsWithSig(sig *types.Signature) []*ssa.Function {
	key := types.TypeString(sig, nil)
	e.mu.Lock()
	if e.sigIndex == nil {
		e.sigIndex = map[string][]*ssa.Function{}
		for g := range e.allFuncs {
			if e.inRepo(g) && len(g.Blocks) > 0 && g.Signature.Recv() == nil {
				k := types.TypeString(types.NewSignatureType(nil, nil, nil, g.Signature.Params(), g.Signature.Results(), g.Signature.Variadic()), nil)
				e.sigIndex[k] = append(e.sigIndex[k], g)
			}
		}
	}
	r := e.sigIndex[key]
	e.mu.Unlock()
	return r
}

func (e *Engine) callbackMod(cc *ssa.CallCommon, idx int) []string {
	if idx >= len(cc.Args) {
		return nil
	}
	switch v := cc.Args[idx].(type) {
	case *ssa.Function:
		if e.inRepo(v) {
			return keys(e.modInfo(v).Exist)
		}
	case *ssa.MakeClosure:
		return keys(e.modInfo(v.Fn.(*ssa.Function)).Exist)
	}
	return []string{"*"}
}

func keys(m map[string]bool) []string {
	var r []string
	for k := range m {
		r = append(r, k)
	}
	sort.Strings(r)
	return r
}

// modOfInstr: all heaps (existing + fresh) an instruction may write, callees included.
func (e *Engine) modOfInstr(f *ssa.Function, ins ssa.Instruction) []string {
	ex, fr := e.instrMod(ins)
	r := append(ex, fr...)
	var cc *ssa.CallCommon
	switch x := ins.(type) {
	case *ssa.Call:
		cc = &x.Call
	case *ssa.Go:
		cc = &x.Call
	case *ssa.Defer:
		cc = &x.Call
	}
	if cc != nil {
		a, b := e.callMod(f, cc)
		for _, n := range a {
			if strings.HasPrefix(n, "cb:") {
				n = "*" // a call through one of f's own parameters: unknown inside f
			}
			r = append(r, n)
		}
		r = append(r, b...)
	}
	return r
}

func (e *Engine) computeMods() {
	// raw analysis (what the code may write, ignoring `pure` contracts): used to CHECK pure/assigns
	e.ignorePure = true
	e.computeModsPass()
	e.rawMod = e.modCache
	// analysis used at call sites: a callee with a `pure` contract writes no pre-existing memory
	// (that contract is checked against the raw analysis when the callee itself is verified)
	e.ignorePure = false
	e.computeModsPass()
}

func (e *Engine) computeModsPass() {
	e.modCache = map[*ssa.Function]*ModInfo{}
	var fns []*ssa.Function
	for fn := range e.allFuncs {
		if e.inRepo(fn) && len(fn.Blocks) > 0 {
			fns = append(fns, fn)
			e.modCache[fn] = &ModInfo{Exist: map[string]bool{}, Fresh: map[string]bool{}}
		}
	}
	changed := true
	for iter := 0; changed && iter < 50; iter++ {
		changed = false
		for _, fn := range fns {
			mi := e.modCache[fn]
			pureSpec := false
			var unprovenFrame map[string]bool
			if sp := e.Specs.Funcs[fnKey(fn)]; sp != nil && sp.Pure && !e.ignorePure {
				pureSpec = true // writes no pre-existing memory: checked by the frame obligations of that function
				if strictFrames {
					unprovenFrame = sp.frameExcepted() // ... except for the heap classes whose frame obligation is excepted
				}
			}
			add := func(set map[string]bool, n string) {

				if !set[n] {
					set[n] = true
					changed = true
				}
			}
			for _, b := range fn.Blocks {
				for _, ins := range b.Instrs {
					ex, fr := e.instrMod(ins)
					var cc *ssa.CallCommon
					switch x := ins.(type) {
					case *ssa.Call:
						cc = &x.Call
					case *ssa.Go:
						cc = &x.Call
					case *ssa.Defer:
						cc = &x.Call
					}
					if cc != nil {
						a, b2 := e.callMod(fn, cc)
						ex = append(ex, a...)
						fr = append(fr, b2...)
					}
					for _, n := range ex {
						switch {
						case !pureSpec || unprovenFrame[n] || (n == "*" && len(unprovenFrame) > 0):
							add(mi.Exist, n)
						case n == "*" || strings.HasPrefix(n, "cb:"):
							// pure with every frame obligation proved: nothing pre-existing is written
							// (callbacks of a function declared pure are assumed pure: stated in the contract)
						default:
							add(mi.Fresh, n)
						}
					}
					for _, n := range fr {
						add(mi.Fresh, n)
					}
				}
			}
		}
	}
}

func (e *Engine) modInfo(fn *ssa.Function) *ModInfo {
	if o := fn.Origin(); o != nil && e.modCache[fn] == nil {
		fn = o
	}
	if mi, ok := e.modCache[fn]; ok {
		return mi
	}
	return &ModInfo{Exist: map[string]bool{"*": true}, Fresh: map[string]bool{}}
}

// modOfFunc: union view used for whole-heap havoc at call sites
func (e *Engine) modOfFunc(fn *ssa.Function) map[string]bool {
	mi := e.modInfo(fn).closed()
	r := map[string]bool{}
	for n := range mi.Exist {
		r[n] = true
	}
	for n := range mi.Fresh {
		r[n] = true
	}
	return r
}

func (e *Engine) pureInvoke(full string) bool {
	switch {
	case strings.HasSuffix(full, ".Error"), strings.HasSuffix(full, ".String"):
		return true
	case strings.HasPrefix(full, "(io/fs.FileInfo)"), strings.HasPrefix(full, "(os.FileInfo)"), strings.HasPrefix(full, "(context.Context)"):
		return true
	case strings.HasPrefix(full, "(reflect.Type)"):
		return true
	}
	return false
}

// rawModInfo: MOD analysis that does not trust `pure` contracts (used to check them)
func (e *Engine) rawModInfo(fn *ssa.Function) *ModInfo {
	if o := fn.Origin(); o != nil && e.rawMod[fn] == nil {
		fn = o
	}
	if mi, ok := e.rawMod[fn]; ok {
		return mi
	}
	return &ModInfo{Exist: map[string]bool{"*": true}, Fresh: map[string]bool{}}
}

func init() {
	debugHooks["mod"] = func(e *Engine) {
		for _, k := range os.Args[3:] {
			fn := e.byKey[k]
			if fn == nil {
				fmt.Println(k, "not found")
				continue
			}
			mi := e.modInfo(fn)
			ex := keys(mi.Exist)
			if len(ex) > 12 {
				ex = append(ex[:12], fmt.Sprintf("... (%d)", len(mi.Exist)))
			}
			fmt.Printf("%s\n  exist: %v\n  fresh: %d classes\n", k, ex, len(mi.Fresh))
			for _, b := range fn.Blocks {
				for _, ins := range b.Instrs {
					if ci, ok := ins.(ssa.CallInstruction); ok {
						a, _ := e.callMod(fn, ci.Common())
						for _, n := range a {
							if n == "*" || strings.HasPrefix(n, "cb:") {
								fmt.Printf("    %s at %v: %s\n", n, e.Fset.Position(ins.Pos()), ins.String())
							}
						}
					}
				}
			}
		}
	}
}
