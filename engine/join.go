package main

// join.go — K5 table lemma for C08 (type transparency): for every leaf of schema/compose-spec.json
// that admits a string next to a boolean/integer/number, the Go field it decodes into must be
// reachable by one of the two string->typed conversions (interpolation cast table, decode-time cast)
// or by a custom DecodeMapstructure. Re-derived from schema + go/types + the cast table on every run.

import (
	"bytes"
	"context"
	"encoding/json"
	"fmt"
	"go/types"
	"golang.org/x/tools/go/ssa"
	"os"
	"os/exec"
	"path/filepath"
	"reflect"
	"sort"
	"strings"
	"time"
)

type schemaLeaf struct {
	Path  []string
	Types map[string]bool
}

type schemaWalker struct {
	root   map[string]any
	leaves map[string]*schemaLeaf
}

func (w *schemaWalker) resolve(n map[string]any) map[string]any {
	for i := 0; i < 8; i++ {
		ref, ok := n["$ref"].(string)
		if !ok {
			return n
		}
		parts := strings.Split(strings.TrimPrefix(ref, "#/"), "/")
		var cur any = w.root
		for _, p := range parts {
			m, ok := cur.(map[string]any)
			if !ok {
				return n
			}
			cur = m[p]
		}
		m, ok := cur.(map[string]any)
		if !ok {
			return n
		}
		n = m
	}
	return n
}

func (w *schemaWalker) addLeaf(path []string, t string) {
	k := strings.Join(path, ".")
	l := w.leaves[k]
	if l == nil {
		l = &schemaLeaf{Path: append([]string{}, path...), Types: map[string]bool{}}
		w.leaves[k] = l
	}
	l.Types[t] = true
}

func (w *schemaWalker) walk(n map[string]any, path []string, depth int) {
	if depth > 14 {
		return
	}
	n = w.resolve(n)
	for _, key := range []string{"oneOf", "anyOf", "allOf"} {
		if alts, ok := n[key].([]any); ok {
			for _, a := range alts {
				if m, ok := a.(map[string]any); ok {
					w.walk(m, path, depth+1)
				}
			}
		}
	}
	var ts []string
	switch t := n["type"].(type) {
	case string:
		ts = []string{t}
	case []any:
		for _, x := range t {
			if s, ok := x.(string); ok {
				ts = append(ts, s)
			}
		}
	}
	for _, t := range ts {
		switch t {
		case "object":
			if props, ok := n["properties"].(map[string]any); ok {
				for name, p := range props {
					if m, ok := p.(map[string]any); ok {
						w.walk(m, append(append([]string{}, path...), name), depth+1)
					}
				}
			}
			if pp, ok := n["patternProperties"].(map[string]any); ok {
				for pat, p := range pp {
					if strings.HasPrefix(pat, "^x-") {
						continue
					}
					if m, ok := p.(map[string]any); ok {
						w.walk(m, append(append([]string{}, path...), "*"), depth+1)
					}
				}
			}
			if ap, ok := n["additionalProperties"].(map[string]any); ok {
				w.walk(ap, append(append([]string{}, path...), "*"), depth+1)
			}
		case "array":
			if it, ok := n["items"].(map[string]any); ok {
				w.walk(it, append(append([]string{}, path...), "[]"), depth+1)
			}
		case "string", "integer", "number", "boolean", "null":
			w.addLeaf(path, t)
		}
	}
}

// goFieldAt follows a schema path through the Go model types by yaml tags.
// returns the leaf type, whether some type on the way has a custom DecodeMapstructure, and ok.
func goFieldAt(root types.Type, path []string) (types.Type, bool, bool) {
	t := root
	custom := false
	for _, seg := range path {
		t = types.Unalias(t)
		if hasDecodeMapstructure(t) {
			custom = true
		}
		for {
			if p, ok := t.Underlying().(*types.Pointer); ok {
				t = types.Unalias(p.Elem())
				if hasDecodeMapstructure(t) {
					custom = true
				}
				continue
			}
			break
		}
		switch u := t.Underlying().(type) {
		case *types.Struct:
			if seg == "*" || seg == "[]" {
				return t, custom, false
			}
			found := false
			for i := 0; i < u.NumFields(); i++ {
				tag := reflect.StructTag(u.Tag(i)).Get("yaml")
				name := strings.Split(tag, ",")[0]
				if name == "" && !strings.Contains(tag, "inline") {
					name = strings.ToLower(u.Field(i).Name())
				}
				if name == seg {
					t = u.Field(i).Type()
					found = true
					break
				}
			}
			if !found {
				return t, custom, false
			}
		case *types.Map:
			if seg == "[]" {
				return t, custom, false
			}
			t = u.Elem()
		case *types.Slice:
			if seg != "[]" {
				// short/long syntax mismatch (e.g. list form of a mapping)
				return t, custom, false
			}
			t = u.Elem()
		default:
			return t, custom, false
		}
	}
	t = types.Unalias(t)
	if hasDecodeMapstructure(t) {
		custom = true
	}
	if p, ok := t.Underlying().(*types.Pointer); ok {
		if hasDecodeMapstructure(p.Elem()) {
			custom = true
		}
		t = p.Elem()
	}
	return t, custom, true
}

func hasDecodeMapstructure(t types.Type) bool {
	for _, tt := range []types.Type{t, types.NewPointer(t)} {
		ms := types.NewMethodSet(tt)
		for i := 0; i < ms.Len(); i++ {
			if ms.At(i).Obj().Name() == "DecodeMapstructure" {
				return true
			}
		}
	}
	return false
}

// castTableRows: the keys of loader.interpolateTypeCastMapping, obtained by running the package
// initialisers of the real code (they have no inputs, so one execution is exhaustive).
func castTableRows(e *Engine) (map[string]string, string, error) {
	dir := filepath.Join(e.RepoDir, "loader")
	tmp, err := os.MkdirTemp("", "govc-casttable")
	if err != nil {
		return nil, "", err
	}
	defer os.RemoveAll(tmp)
	src := `package loader

import (
	"encoding/json"
	"fmt"
	"reflect"
	"runtime"
	"testing"
)

func TestVerifDumpCastTable(t *testing.T) {
	rows := map[string]string{}
	for k, f := range interpolateTypeCastMapping {
		rows[string(k)] = runtime.FuncForPC(reflect.ValueOf(f).Pointer()).Name()
	}
	b, _ := json.Marshal(rows)
	fmt.Printf("CASTTABLE %s\n", b)
}
`
	tf := filepath.Join(tmp, "dump_test.go")
	os.WriteFile(tf, []byte(src), 0o644)
	ov, _ := json.Marshal(map[string]any{"Replace": map[string]string{filepath.Join(dir, "zz_verif_casttable_test.go"): tf}})
	of := filepath.Join(tmp, "ov.json")
	os.WriteFile(of, ov, 0o644)
	ctx, cancel := context.WithTimeout(context.Background(), 180*time.Second)
	defer cancel()
	cmd := exec.CommandContext(ctx, "go", "test", "-overlay", of, "-vet=off", "-count=1", "-timeout", "120s", "-run", "^TestVerifDumpCastTable$", "-v", ".")
	cmd.Dir = dir
	cmd.Env = append(os.Environ(), "GOFLAGS=-mod=mod", "GOPROXY=off", "GOSUMDB=off", "GOTOOLCHAIN=local")
	var out bytes.Buffer
	cmd.Stdout = &out
	cmd.Stderr = &out
	cmd.Run()
	for _, ln := range strings.Split(out.String(), "\n") {
		if strings.HasPrefix(ln, "CASTTABLE ") {
			rows := map[string]string{}
			if err := json.Unmarshal([]byte(strings.TrimPrefix(ln, "CASTTABLE ")), &rows); err != nil {
				return nil, out.String(), err
			}
			return rows, "", nil
		}
	}
	return nil, truncate(out.String(), 2000), fmt.Errorf("cast table dump did not run")
}

func pathMatchesPattern(path []string, pattern string) bool {
	pp := strings.Split(pattern, ".")
	if len(pp) != len(path) {
		return false
	}
	for i := range pp {
		if pp[i] == "*" || pp[i] == path[i] {
			continue
		}
		// a "*" segment of the schema path (any key) is only covered by a "*" pattern segment
		return false
	}
	return true
}

func castJoinJobs(e *Engine) []*Job {
	var jobs []*Job
	raw, err := os.ReadFile(filepath.Join(e.RepoDir, "schema", "compose-spec.json"))
	if err != nil {
		return []*Job{structJob("C08/join/schema", "join", false, err.Error(), "")}
	}
	var root map[string]any
	if err := json.Unmarshal(raw, &root); err != nil {
		return []*Job{structJob("C08/join/schema", "join", false, err.Error(), "")}
	}
	w := &schemaWalker{root: root, leaves: map[string]*schemaLeaf{}}
	w.walk(root, nil, 0)
	rows, outp, err := castTableRows(e)
	if err != nil {
		return []*Job{structJob("C08/join/cast-table", "join", false, err.Error()+" "+outp, "")}
	}
	var project types.Type
	for _, p := range e.Pkgs {
		if p.Name == "types" && p.Types != nil {
			if o := p.Types.Scope().Lookup("Project"); o != nil {
				project = o.Type()
			}
		}
	}
	if project == nil {
		return []*Job{structJob("C08/join/types", "join", false, "types.Project not found", "")}
	}
	var keys []string
	for k := range w.leaves {
		keys = append(keys, k)
	}
	sort.Strings(keys)
	unmapped := 0
	for _, k := range keys {
		l := w.leaves[k]
		if !l.Types["string"] || !(l.Types["integer"] || l.Types["number"] || l.Types["boolean"]) {
			continue
		}
		gt, custom, ok := goFieldAt(project, l.Path)
		how := ""
		switch {
		case func() bool {
			for pat := range rows {
				if pathMatchesPattern(l.Path, pat) {
					how = "cast table row " + pat + " -> " + rows[pat]
					return true
				}
			}
			return false
		}():
		case custom:
			how = "custom DecodeMapstructure on the way"
		case func() bool {
			// the canonical transformer of an enclosing attribute rewrites the short form beforehand
			for _, ti := range e.tables {
				if ti.Global.Name() != "transformers" {
					continue
				}
				for _, r := range ti.Rows {
					if strings.HasSuffix(r.Desc, "transformService") {
						continue // plain traversal, no short form
					}
					pp := strings.Split(r.Key, ".")
					if len(pp) <= len(l.Path) && pathMatchesPattern(l.Path[:len(pp)], r.Key) {
						how = "short form rewritten by canonical transformer row " + r.Key + " -> " + r.Desc
						return true
					}
				}
			}
			return false
		}():
		case !ok:
			unmapped++
			continue // no Go field by yaml tags (short-syntax alternative or free-form section): not decided
		default:
			if b, isB := types.Unalias(gt).Underlying().(*types.Basic); isB {
				switch {
				case b.Info()&types.IsString != 0:
					how = "Go field is a string (no conversion)"
				case b.Kind() == types.Bool, b.Kind() == types.Int, b.Kind() == types.Int64, b.Kind() == types.Float32, b.Kind() == types.Float64,
					b.Kind() == types.Uint, b.Kind() == types.Uint8, b.Kind() == types.Uint16, b.Kind() == types.Uint32, b.Kind() == types.Uint64:
					how = "decode-time cast handles kind " + b.Name()
				}
			} else if _, isI := types.Unalias(gt).Underlying().(*types.Interface); isI {
				how = "Go field is an interface (value kept as is)"
			}
		}
		var tl []string
		for t := range l.Types {
			tl = append(tl, t)
		}
		sort.Strings(tl)
		detail := fmt.Sprintf("schema types %v; Go type %v; %s", tl, gt, how)
		jobs = append(jobs, structJob("C08/join["+k+"]", "join", how != "", detail, ""))
	}
	// the two cooperating string->typed conversion sites use the same converters: every converter function
	// the interpolation cast table names is also the one the decode-time cast hook (loader.cast) calls,
	// so a value typed by either route is parsed by the same grammar
	castFn := e.byKey["loader.cast"]
	callees := map[string]bool{}
	if castFn != nil {
		for _, b := range castFn.Blocks {
			for _, ins := range b.Instrs {
				if ci, ok := ins.(ssa.CallInstruction); ok {
					if sc := ci.Common().StaticCallee(); sc != nil {
						callees[sc.String()] = true
					}
				}
			}
		}
	}
	conv := map[string]bool{}
	for _, fn := range rows {
		conv[fn] = true
	}
	var convs []string
	for fn := range conv {
		convs = append(convs, fn)
	}
	sort.Strings(convs)
	for _, fn := range convs {
		short := fn[strings.LastIndex(fn, "/")+1:]
		if strings.Contains(short, ".func") || strings.Contains(short, "$") {
			continue // anonymous row function: not a shared named converter
		}
		ok := castFn != nil && callees[fn]
		jobs = append(jobs, structJob("C08/join/shared-converter["+short+"]", "join", ok,
			fmt.Sprintf("cast table converter %s is called by the decode-time hook loader.cast: %v", fn, ok), ""))
	}
	jobs = append(jobs, structJob("C08/join/coverage", "join", true, fmt.Sprintf("%d schema leaves, %d cast-table rows, %d leaves without a Go field by yaml tags (not decided)", len(keys), len(rows), unmapped), ""))
	return jobs
}
