// dir: loader
// Demonstration for "fix: types: a byte size given as a float ...": `mem_limit: 2.0` (schema: number|string)
// loaded as 0 on the pinned tree.
package loader_test

import (
	"context"
	"testing"

	"github.com/compose-spec/compose-go/v2/loader"
	"github.com/compose-spec/compose-go/v2/types"
)

func TestUnitBytesFloat(t *testing.T) {
	p, err := loader.LoadWithContext(context.Background(), types.ConfigDetails{WorkingDir: "/tmp/x",
		ConfigFiles: []types.ConfigFile{{Filename: "compose.yaml", Content: []byte("services: {a: {image: x, mem_limit: 2.0}}")}}, Environment: map[string]string{}},
		func(o *loader.Options) { o.SetProjectName("demo", true); o.SkipResolveEnvironment = true })
	if err != nil {
		t.Fatal(err)
	}
	if p.Services["a"].MemLimit != 2 {
		t.Fatalf("mem_limit: 2.0 loaded as %d", p.Services["a"].MemLimit)
	}
}
