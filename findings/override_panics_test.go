// dir: loader
// Demonstration for the "fix: override: ..." commits: each case panicked on the pinned tree (cebd062)
// and returns an error (never a panic) on the repaired tree. Run by /verif/findings/run.sh.
package loader_test

import (
	"context"
	"testing"

	"github.com/compose-spec/compose-go/v2/loader"
	"github.com/compose-spec/compose-go/v2/types"
)

func loadFiles(t *testing.T, files ...string) (err error, panicked any) {
	t.Helper()
	defer func() { panicked = recover() }()
	var cfs []types.ConfigFile
	for i, f := range files {
		cfs = append(cfs, types.ConfigFile{Filename: string(rune('a'+i)) + ".yaml", Content: []byte(f)})
	}
	_, err = loader.LoadWithContext(context.Background(), types.ConfigDetails{WorkingDir: t.TempDir(), ConfigFiles: cfs, Environment: map[string]string{}},
		func(o *loader.Options) { o.SetProjectName("demo", true); o.SkipResolveEnvironment = true })
	return err, nil
}

func TestOverridePanics(t *testing.T) {
	cases := map[string][]string{
		"logging-scalar-in-override": {"services: {a: {image: x, logging: {driver: json-file}}}", "services: {a: {logging: foo}}"},
		"logging-driver-mapping":     {"services: {a: {image: x, logging: {driver: {a: b}}}}", "services: {a: {logging: {driver: {a: b}}}}"},
		"build-number-base":          {"services: {a: {image: x, build: 3}}", "services: {a: {build: {context: .}}}"},
		"depends_on-number-entry":    {"services: {a: {image: x, depends_on: [b]}, b: {image: y}}", "services: {a: {depends_on: [3]}}"},
		"depends_on-scalar-base":     {"services: {a: {image: x, depends_on: b}, b: {image: y}}", "services: {a: {depends_on: [b]}}"},
		"ipam-config-scalar":         {"networks: {n: {ipam: {config: [{subnet: 10.0.0.0/24}]}}}", "networks: {n: {ipam: {config: foo}}}"},
		"ipam-config-entry-scalar":   {"networks: {n: {ipam: {config: [3]}}}", "networks: {n: {ipam: {config: [{subnet: 10.0.0.0/24}]}}}"},
		"secret-target-number":       {"services: {a: {image: x, secrets: [{source: s, target: 3}]}}\nsecrets: {s: {file: ./s}}"},
		"env_file-path-number":       {"services: {a: {image: x, env_file: [{path: 3}]}}"},
	}
	for name, files := range cases {
		t.Run(name, func(t *testing.T) {
			err, p := loadFiles(t, files...)
			if p != nil {
				t.Fatalf("PANIC: %v", p)
			}
			if err == nil {
				t.Fatalf("expected an error for malformed input")
			}
		})
	}
}
