package main

// closures.go — identity of function values (closures) and dispatch of dynamic calls over the
// address-taken functions of the module with an identical signature.

import (
	"fmt"
	"go/token"
	"go/types"
	"sort"
	"strings"

	"golang.org/x/tools/go/ssa"
)

// underlyingMethod: for a bound-method wrapper closure, the method it wraps
func (e *Engine) underlyingMethod(fn *ssa.Function) *ssa.Function {
	if !strings.HasPrefix(fn.Synthetic, "bound method wrapper") {
		return nil
	}
	obj, ok := fn.Object().(*types.Func)
	if !ok {
		return nil
	}
	return e.Prog.FuncValue(obj)
}

func sigKey(s *types.Signature) string {
	var b strings.Builder
	b.WriteString("func(")
	for i := 0; i < s.Params().Len(); i++ {
		if i > 0 {
			b.WriteString(",")
		}
		b.WriteString(canon(s.Params().At(i).Type()))
	}
	if s.Variadic() {
		b.WriteString("...")
	}
	b.WriteString(")(")
	for i := 0; i < s.Results().Len(); i++ {
		if i > 0 {
			b.WriteString(",")
		}
		b.WriteString(canon(s.Results().At(i).Type()))
	}
	b.WriteString(")")
	return b.String()
}

func (e *Engine) analyzeAddressTaken() {
	e.addrTaken = map[string][]*ssa.Function{}
	seen := map[*ssa.Function]bool{}
	seenM := map[*ssa.Function]bool{}
	add := func(f *ssa.Function, sig *types.Signature) {
		if f == nil || seen[f] || !e.inRepo(f) {
			return
		}
		seen[f] = true
		if m := e.underlyingMethod(f); m != nil {
			if seenM[m] {
				return
			}
			seenM[m] = true
		}
		k := sigKey(sig)
		e.addrTaken[k] = append(e.addrTaken[k], f)
	}
	for fn := range e.allFuncs {
		if !e.inRepo(fn) {
			continue
		}
		for _, b := range fn.Blocks {
			for _, ins := range b.Instrs {
				if mc, ok := ins.(*ssa.MakeClosure); ok {
					f := mc.Fn.(*ssa.Function)
					add(f, mc.Type().Underlying().(*types.Signature))
					continue
				}
				var ops []*ssa.Value
				ops = ins.Operands(ops)
				for i, op := range ops {
					if op == nil || *op == nil {
						continue
					}
					f, ok := (*op).(*ssa.Function)
					if !ok {
						continue
					}
					if cl, isCall := ins.(ssa.CallInstruction); isCall && i == 0 && cl.Common().Value == *op {
						continue // direct call position
					}
					add(f, f.Signature)
				}
			}
		}
	}
	for k := range e.addrTaken {
		fs := e.addrTaken[k]
		sort.Slice(fs, func(i, j int) bool { return fnKey(fs[i])+fs[i].Name() < fnKey(fs[j])+fs[j].Name() })
	}
}

func (c *FnCtx) closureFns() {
	c.declareFun("mkclo", []Sort{SInt, SInt}, SInt)
	c.declareFun("clofn", []Sort{SInt}, SInt)
	c.declareFun("clob", []Sort{SInt}, SInt)
	if !c.ufs["cloaxiom"] {
		c.ufs["cloaxiom"] = true
		c.gfact("(forall ((f Int) (b Int)) (! (and (= (clofn (mkclo f b)) f) (= (clob (mkclo f b)) b) (< (mkclo f b) 0)) :pattern ((mkclo f b))))")
	}
}

// closureTerm: SMT identity of a MakeClosure value
func (c *FnCtx) closureTerm(fn *ssa.Function, bs []Val) string {
	c.closureFns()
	target := fn
	if m := c.E.underlyingMethod(fn); m != nil {
		target = m
	}
	fid := c.E.fnID(target)
	if len(bs) == 1 && bs[0].S == SInt && bs[0].T != "" && bs[0].Place == nil {
		t := c.freshConst("closure", SInt)
		c.fact(fmt.Sprintf("(and (= %s (mkclo %d %s)) (< %s 0) (= (clofn %s) %d) (= (clob %s) %s))", t, fid, bs[0].T, t, t, fid, t, bs[0].T))
		return t
	}
	t := c.freshConst("closure", SInt)
	c.fact(fmt.Sprintf("(and (< %s 0) (= (clofn %s) %d))", t, t, fid))
	return t
}

// dynamicDispatch: candidates for a call through a function value of signature sig
func (c *FnCtx) dynamicDispatch(fv Val, sig *types.Signature) []Cand {
	if fv.T == "" {
		return nil
	}
	fs := c.E.addrTaken[sigKey(sig)]
	if len(fs) == 0 || len(fs) > 16 {
		return nil
	}
	c.closureFns()
	var cands []Cand
	var conds []string
	for _, f := range fs {
		var cd Cand
		if m := c.E.underlyingMethod(f); m != nil {
			cond := fmt.Sprintf("(and (< %s 0) (= (clofn %s) %d))", fv.T, fv.T, c.E.fnID(m))
			recv := c.freshConst("boundrecv", SInt)
			c.fact(fmt.Sprintf("(=> %s (= %s (clob %s)))", cond, recv, fv.T))
			cd = Cand{Cond: cond, Fn: m, PreArgs: []Val{{T: recv, S: SInt, GT: m.Params[0].Type()}}}
		} else if len(f.FreeVars) > 0 {
			cond := fmt.Sprintf("(and (< %s 0) (= (clofn %s) %d))", fv.T, fv.T, c.E.fnID(f))
			cd = Cand{Cond: cond, Fn: f}
			for _, v := range f.FreeVars {
				b := c.freshConst("capt", SInt)
				c.fact(fmt.Sprintf("(not (= %s 0))", b))
				cd.Bindings = append(cd.Bindings, Val{T: b, S: SInt, GT: v.Type()})
			}
		} else {
			cd = Cand{Cond: fmt.Sprintf("(= %s %d)", fv.T, c.E.fnID(f)), Fn: f}
		}
		cands = append(cands, cd)
		conds = append(conds, cd.Cond)
	}
	// anything else (a function value created outside the module): unknown
	cands = append(cands, Cand{Cond: "(not (or " + strings.Join(conds, " ") + " false))", Unknown: true})
	return cands
}

var _ = token.NoPos
