// dir: dotenv
// Demonstration for "fix: dotenv: a bare variable name on the last line ...": on the pinned tree
// `KEY` (no trailing newline) parsed to {"": "KEY"}; on the repaired tree it is inherited from the lookup.
package dotenv

import (
	"strings"
	"testing"
)

func TestBareKeyAtEOF(t *testing.T) {
	lookup := func(k string) (string, bool) {
		if k == "KEY" {
			return "v", true
		}
		return "", false
	}
	for _, in := range []string{"KEY", "A=1\nKEY", "A=1\nKEY  "} {
		m, err := ParseWithLookup(strings.NewReader(in), lookup)
		if err != nil {
			t.Fatalf("%q: %v", in, err)
		}
		if _, bad := m[""]; bad || m["KEY"] != "v" {
			t.Fatalf("%q: got %v, want KEY inherited", in, m)
		}
	}
}
