package main

// engine.go — program loading, per-function verification driver, SMT script assembly.

import (
	"fmt"
	"go/token"
	"go/types"
	"os"
	"runtime/debug"
	"sort"
	"strings"
	"sync"

	"golang.org/x/tools/go/packages"
	"golang.org/x/tools/go/ssa"
	"golang.org/x/tools/go/ssa/ssautil"
)

type Engine struct {
	Fset       *token.FileSet
	Prog       *ssa.Program
	Pkgs       []*packages.Package
	SPkgs      []*ssa.Package
	Model      *Model
	Specs      *Specs
	RepoDir    string
	ModPath    string
	allFuncs   map[*ssa.Function]bool
	byKey      map[string]*ssa.Function
	fnIDs      map[*ssa.Function]int
	extSigs    map[string]builtinSig
	gtNames    map[string]types.Type
	modCache   map[*ssa.Function]*ModInfo
	mu         sync.Mutex
	globals    map[string]*globalInfo
	addrTaken  map[string][]*ssa.Function
	rawMod     map[*ssa.Function]*ModInfo
	ignorePure bool
	sigIndex   map[string][]*ssa.Function
	srcCache   map[string][]string
	tables     map[string]*TableInfo
	frozen     map[string]bool
	usedC      map[string]map[string]bool
	usedX      map[string]map[string]bool
	specErrs   []string
}

func LoadEngine(repo string) (*Engine, error) {
	cfg := &packages.Config{Mode: packages.LoadAllSyntax | packages.NeedModule, Dir: repo, BuildFlags: []string{"-tags=verif"}, Env: append(os.Environ(), "GOFLAGS=-mod=mod", "GOPROXY=off", "GOSUMDB=off", "GOTOOLCHAIN=local")}
	pkgs, err := packages.Load(cfg, "./...")
	if err != nil {
		return nil, err
	}
	nerr := 0
	for _, p := range pkgs {
		for _, e := range p.Errors {
			fmt.Fprintln(os.Stderr, "load error:", e)
			nerr++
		}
	}
	if nerr > 0 {
		return nil, fmt.Errorf("%d package load errors", nerr)
	}
	prog, spkgs := ssautil.AllPackages(pkgs, ssa.GlobalDebug|ssa.InstantiateGenerics)
	prog.Build()
	e := &Engine{Fset: prog.Fset, Prog: prog, Pkgs: pkgs, SPkgs: spkgs, Model: NewModel(), RepoDir: repo,
		fnIDs: map[*ssa.Function]int{}, extSigs: map[string]builtinSig{}, gtNames: map[string]types.Type{},
		usedC: map[string]map[string]bool{}, usedX: map[string]map[string]bool{}, byKey: map[string]*ssa.Function{}}
	if len(pkgs) > 0 && pkgs[0].Module != nil {
		e.ModPath = pkgs[0].Module.Path
	}
	e.allFuncs = ssautil.AllFunctions(prog)
	for fn := range e.allFuncs {
		if e.inRepo(fn) {
			k := fnKey(fn)
			if old, ok := e.byKey[k]; ok {
				// prefer the non-instantiated / the one with a body
				if len(old.Blocks) > 0 && (fn.Origin() != nil || len(fn.Blocks) == 0) {
					continue
				}
			}
			e.byKey[k] = fn
		}
	}
	// bodies that AllFunctions does not reach (generic methods never instantiated inside the module)
	var addFn func(fn *ssa.Function)
	addFn = func(fn *ssa.Function) {
		if fn == nil || len(fn.Blocks) == 0 {
			return
		}
		k := fnKey(fn)
		if _, ok := e.byKey[k]; !ok {
			e.byKey[k] = fn
			e.allFuncs[fn] = true
		}
		for _, a := range fn.AnonFuncs {
			addFn(a)
		}
	}
	for _, sp := range spkgs {
		if sp == nil || sp.Pkg == nil || !(sp.Pkg.Path() == e.ModPath || strings.HasPrefix(sp.Pkg.Path(), e.ModPath+"/")) {
			continue
		}
		sc := sp.Pkg.Scope()
		for _, n := range sc.Names() {
			switch o := sc.Lookup(n).(type) {
			case *types.Func:
				addFn(prog.FuncValue(o))
			case *types.TypeName:
				if nt, ok := o.Type().(*types.Named); ok {
					for i := 0; i < nt.NumMethods(); i++ {
						addFn(prog.FuncValue(nt.Method(i)))
					}
				}
			}
		}
	}
	// short closure keys (pkg.Method$1) stay usable when they are unambiguous
	alias := map[string][]*ssa.Function{}
	for k, fn := range e.byKey {
		if fn.Parent() != nil && strings.Contains(k, ").") {
			short := k[:strings.Index(k, ".(")] + "." + fn.Name()
			alias[short] = append(alias[short], fn)
		}
	}
	e.Specs = LoadSpecs(repo, nil)
	for short, fns := range alias {
		sp := e.Specs.Funcs[short]
		if sp == nil || e.byKey[short] != nil {
			continue
		}
		if len(fns) == 1 {
			k := fnKey(fns[0])
			if e.Specs.Funcs[k] == nil {
				delete(e.Specs.Funcs, short)
				sp.Key = k
				e.Specs.Funcs[k] = sp
			}
		}
	}
	e.preRegisterExterns()
	e.analyzeAddressTaken()
	e.analyzeGlobals()
	e.analyzeTables()
	e.computeMods()
	return e, nil
}

func (e *Engine) inRepo(f *ssa.Function) bool {
	pp := pkgPathOf(f)
	return e.ModPath != "" && (pp == e.ModPath || strings.HasPrefix(pp, e.ModPath+"/"))
}

func (e *Engine) fnID(f *ssa.Function) int {
	e.mu.Lock()
	defer e.mu.Unlock()
	if id, ok := e.fnIDs[f]; ok {
		return id
	}
	id := len(e.fnIDs) + 1000
	e.fnIDs[f] = id
	return id
}

func (e *Engine) isConstGlobal(name string) bool { return false }

func (e *Engine) funcHeaps(f *ssa.Function) []string { return nil }

func (e *Engine) usedContract(caller, callee string) {
	e.mu.Lock()
	defer e.mu.Unlock()
	if e.usedC[caller] == nil {
		e.usedC[caller] = map[string]bool{}
	}
	e.usedC[caller][callee] = true
}

func (e *Engine) usedExtern(caller, name string) {
	e.mu.Lock()
	defer e.mu.Unlock()
	if e.usedX[caller] == nil {
		e.usedX[caller] = map[string]bool{}
	}
	e.usedX[caller][name] = true
}

func (e *Engine) specError(fn string, cl *Clause, err error) {
	e.mu.Lock()
	defer e.mu.Unlock()
	msg := fmt.Sprintf("%s: %s: %v   [%s]", cl.Where, fn, err, cl.Text)
	for _, m := range e.specErrs {
		if m == msg {
			return
		}
	}
	e.specErrs = append(e.specErrs, msg)
}

func (e *Engine) specErrorText(fn, what string, err error) {
	e.mu.Lock()
	defer e.mu.Unlock()
	e.specErrs = append(e.specErrs, fmt.Sprintf("%s: %s: %v", fn, what, err))
}

func (e *Engine) noteCallbackPanics(c *FnCtx, fn *ssa.Function) {
	c.note("callback " + fnKey(fn) + " runs inside an external iterator; its own safety obligations are generated when it is verified as a function")
}

// ---------- function verification ----------

type FuncResult struct {
	Key      string
	Obls     []*Obligation
	Notes    []string
	Script   func(o *Obligation) string
	Cover    string // sat | unknown | unsat(VACUOUS)
	NInstr   int
	NPanicky int
	Skipped  string
	ctx      *FnCtx
}

func (e *Engine) newCtx(fn *ssa.Function, spec *FuncSpec, heaps map[string]Sort) *FnCtx {
	c := &FnCtx{E: e, M: e.Model, F: fn, Name: fnKey(fn), Spec: spec,
		vals: map[ssa.Value]Val{}, declS: map[string]bool{}, reach: map[int]string{}, edges: map[[2]int]string{},
		outSt: map[int]map[string]string{}, st: map[string]string{}, entry: map[string]string{}, notes: map[string]bool{},
		kcount: map[string]int{}, boxes: map[Sort]bool{}, lits: map[string]string{}, ufs: map[string]bool{},
		params: map[string]Val{}, heapsUsed: map[string]Sort{}, hwm: map[string]string{}}
	for n, s := range heaps {
		c.heapsUsed[n] = s
	}
	return c
}

func (e *Engine) Translate(fn *ssa.Function) (c *FnCtx, err error) {
	defer func() {
		if r := recover(); r != nil {
			err = fmt.Errorf("translation of %s failed: %v", fnKey(fn), r)
			if os.Getenv("GOVC_DEBUG") != "" {
				fmt.Fprintf(os.Stderr, "%s\n", debug.Stack())
			}
		}
	}()
	spec := e.Specs.Funcs[fnKey(fn)]
	// pass 1: discover heap names
	c1 := e.newCtx(fn, spec, nil)
	c1.translate()
	// pass 2: with every heap known from the start (so havoc-all covers later-used heaps)
	c = e.newCtx(fn, spec, c1.heapsUsed)
	c.translate()
	for i := 0; i < 3 && len(c.heapsUsed) > len(c1.heapsUsed); i++ {
		c1 = c
		c = e.newCtx(fn, spec, c1.heapsUsed)
		c.translate()
	}
	return c, nil
}

// structsUsed: struct sorts mentioned in text, closed under field dependencies
func (e *Engine) structsUsed(text string) map[string]bool {
	used := map[string]bool{}
	var visit func(n string)
	visit = func(n string) {
		if used[n] {
			return
		}
		used[n] = true
		for _, f := range e.Model.structs[n].Fields {
			fs := string(f.Sort)
			for dep := range e.Model.structs {
				if fs == dep || strings.Contains(fs, " "+dep+")") {
					visit(dep)
				}
			}
		}
	}
	var names []string
	for n := range e.Model.structs {
		names = append(names, n)
	}
	sort.Slice(names, func(i, j int) bool { return len(names[i]) > len(names[j]) })
	for _, n := range names {
		if strings.Contains(text, n) {
			visit(n)
		}
	}
	return used
}

var noSlice = os.Getenv("GOVC_NOSLICE") != ""

const anywfDef = `(define-fun anywf ((x Any) (w Int)) Bool (and
 (=> ((_ is a_map) x) (and (>= (a_m x) 1) (<= (a_m x) w)))
 (=> ((_ is a_mapaa) x) (and (>= (a_maa x) 0) (<= (a_maa x) w)))
 (=> ((_ is a_list) x) (and (>= (s_ref (a_l x)) 0) (<= (s_ref (a_l x)) w) (>= (s_off (a_l x)) 0) (>= (s_len (a_l x)) 0) (<= (s_len (a_l x)) (s_cap (a_l x))) (=> (= (s_ref (a_l x)) 0) (= (s_cap (a_l x)) 0))))
 (=> ((_ is a_other) x) (>= (a_ty x) 1))))
`

// script assembles the SMT-LIB text for one obligation (negated goal) or a cover query.
func (c *FnCtx) script(o *Obligation, cover bool, coverBlock int, coverGuard string) string {
	var body strings.Builder
	blk, seq := coverBlock, 1<<30
	if o != nil {
		blk, seq = o.Block, o.Seq
	}
	anc := c.anc[blk]
	var cands []int
	for i, f := range c.facts {
		if f.Block == -1 || anc[f.Block] || (f.Block == blk && f.Seq < seq) {
			cands = append(cands, i)
		}
	}
	if o != nil && !noSlice {
		cands = c.coneOfInfluence(cands, o.Guard+" "+o.Cond)
	}
	// declarations: only symbols that occur
	var fb strings.Builder
	for _, i := range cands {
		fb.WriteString("(assert ")
		fb.WriteString(c.facts[i].Text)
		fb.WriteString(")\n")
	}
	goal := ""
	if o != nil {
		goal = o.Guard + " " + o.Cond
	} else {
		goal = coverGuard
	}
	used := map[string]bool{}
	for _, s := range smtSymbols(fb.String() + " " + goal) {
		used[s] = true
	}
	for _, d := range c.decls {
		// (declare-const name sort) / (declare-fun name ...)
		fs := strings.Fields(d)
		if len(fs) >= 2 && (used[fs[1]] || noSlice) {
			body.WriteString(d)
			body.WriteByte('\n')
		}
	}
	body.WriteString(fb.String())
	if o != nil {
		fmt.Fprintf(&body, "(assert %s)\n(assert (not %s))\n", o.Guard, o.Cond)
	} else {
		fmt.Fprintf(&body, "(assert %s)\n", coverGuard)
	}
	text := body.String()
	var sb strings.Builder
	sb.WriteString(c.prelude(text))
	sb.WriteString(text)
	sb.WriteString("(check-sat)\n")
	return sb.String()
}

func (c *FnCtx) prelude(text string) string {
	m := c.M
	var bt strings.Builder
	bt.WriteString(text)
	for bs := range c.boxes {
		bt.WriteString(" " + string(bs) + " ")
	}
	used := c.E.structsUsed(bt.String())
	// temporarily restrict struct emission
	sub := &Model{structs: map[string]*StructInfo{}, typeIDs: m.typeIDs, arrSorts: m.arrSorts}
	for n := range used {
		sub.structs[n] = m.structs[n]
		sub.structOrder = append(sub.structOrder, n)
	}
	return sub.Prelude(c.boxes) + anywfDef
}

// havocMod applies a callee's / loop's MOD set: existing-object heaps fully havocked,
// fresh-only heaps keep every row that existed before.
func (c *FnCtx) havocMod(exist, fresh map[string]bool, why string) {
	if exist["*"] {
		c.havocAll(why)
		return
	}
	wm := c.H("$wm")
	var ns []string
	for n := range exist {
		ns = append(ns, n)
	}
	for n := range fresh {
		if !exist[n] {
			ns = append(ns, n)
		}
	}
	sort.Strings(ns)
	for _, n := range ns {
		if n == "$wm" {
			continue
		}
		c.heapSort(n)
		old := c.H(n)
		nw := c.havocHeap(n)
		if !exist[n] && !strings.HasPrefix(n, "G|") {
			if c.hparent == nil {
				c.hparent = map[string]heapParent{}
			}
			c.hparent[nw] = heapParent{old: old, wm: wm}
			c.fact(fmt.Sprintf("(forall ((qr Int)) (! (=> (<= qr %s) (= (select %s qr) (select %s qr))) :pattern ((select %s qr))))", wm, nw, old, nw))
		}
	}
	c.havocHeap("$wm")
}

// srcLine: trimmed text of a source line of the module (empty for files outside it or contract files)
func (e *Engine) srcLine(file string, line int) string {
	if !strings.HasPrefix(file, e.RepoDir) || strings.Contains(file, "verif_contracts") {
		return ""
	}
	e.mu.Lock()
	defer e.mu.Unlock()
	if e.srcCache == nil {
		e.srcCache = map[string][]string{}
	}
	ls, ok := e.srcCache[file]
	if !ok {
		b, err := os.ReadFile(file)
		if err == nil {
			ls = strings.Split(string(b), "\n")
		}
		e.srcCache[file] = ls
	}
	if line < 1 || line > len(ls) {
		return ""
	}
	return strings.TrimSpace(ls[line-1])
}
