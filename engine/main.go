package main

import (
	"flag"
	"fmt"
	"os"
	"sort"
	"strings"
	"time"

	"golang.org/x/tools/go/ssa"
)

var debugHooks = map[string]func(*Engine){}

func main() {
	if len(os.Args) < 2 {
		fmt.Println("usage: govc sweep|check|dump ...")
		os.Exit(2)
	}
	switch os.Args[1] {
	case "sweep":
		cmdSweep(os.Args[2:])
	case "check":
		os.Exit(cmdCheck(os.Args[2:]))
	case "dump":
		cmdDump(os.Args[2:])
	case "debug":
		e, err := LoadEngine("/repo")
		if err != nil {
			fmt.Println(err)
			os.Exit(3)
		}
		if h := debugHooks[os.Args[2]]; h != nil {
			h(e)
		}
	case "tables":
		e, err := LoadEngine("/repo")
		if err != nil {
			fmt.Println(err)
			os.Exit(3)
		}
		for n, ti := range e.tables {
			fmt.Printf("%s open=%v frozen=%v rows=%d\n", n, ti.Open, ti.Frozen, len(ti.Rows))
			for _, r := range ti.Rows {
				fmt.Printf("   %-55s %s (fn=%v closure=%v)\n", r.Key, r.Desc, r.Fn != nil, r.Closure)
			}
		}
	default:
		fmt.Println("unknown command")
		os.Exit(2)
	}
}

func sortedFuncs(e *Engine, filter func(*ssa.Function) bool) []*ssa.Function {
	var fns []*ssa.Function
	have := map[string]bool{}
	for fn := range e.allFuncs {
		if e.inRepo(fn) && len(fn.Blocks) > 0 && fn.Synthetic == "" && filter(fn) {
			fns = append(fns, fn)
			have[fnKey(fn)] = true
		}
	}
	// functions under contract are always swept (the check selects them by contract key, e.g. generic methods)
	for k := range e.Specs.Funcs {
		if fn := e.byKey[k]; fn != nil && !have[k] && len(fn.Blocks) > 0 && filter(fn) {
			fns = append(fns, fn)
			have[k] = true
		}
	}
	sort.Slice(fns, func(i, j int) bool { return fnKey(fns[i]) < fnKey(fns[j]) })
	return fns
}

// sweep: zero-annotation K1 run over packages (exploration tool, not a registered check)
func cmdSweep(args []string) {
	fs := flag.NewFlagSet("sweep", flag.ExitOnError)
	repo := fs.String("repo", "/repo", "")
	pkg := fs.String("pkg", "", "package name filter (comma separated)")
	fnf := fs.String("func", "", "function key substring")
	to := fs.Int("timeout", 5, "")
	verbose := fs.Bool("v", false, "")
	showModel := fs.Bool("model", false, "")
	jobsN := fs.Int("j", 16, "parallel solver processes")
	withExcepted := fs.Bool("with-excepted", false, "also try the excepted obligations")
	fs.Parse(args)
	e, err := LoadEngine(*repo)
	if err != nil {
		fmt.Println(err)
		os.Exit(3)
	}
	for _, se := range e.Specs.Errors {
		fmt.Println("SPEC-ERROR", se)
	}
	pk := map[string]bool{}
	for _, p := range strings.Split(*pkg, ",") {
		if p != "" {
			pk[p] = true
		}
	}
	fns := sortedFuncs(e, func(f *ssa.Function) bool {
		k := fnKey(f)
		if len(pk) > 0 && !pk[strings.SplitN(k, ".", 2)[0]] {
			return false
		}
		return *fnf == "" || strings.Contains(k, *fnf)
	})
	t0 := time.Now()
	var all []*Obligation
	var jobs []func()
	for _, fn := range fns {
		c, err := e.Translate(fn)
		if err != nil {
			fmt.Println("TRANSLATE-ERROR", err)
			continue
		}
		if *verbose {
			var ns []string
			for n := range c.notes {
				ns = append(ns, n)
			}
			sort.Strings(ns)
			fmt.Printf("== %s: %d obligations, %d facts; notes: %s\n", c.Name, len(c.obls), len(c.facts), strings.Join(ns, "; "))
		}
		for _, o := range c.obls {
			o := o
			c := c
			all = append(all, o)
			if sp := e.Specs.Funcs[o.Func]; sp != nil && excepted(sp, o) && !*withExcepted {
				o.Status = "unknown:excepted"
				continue
			}
			jobs = append(jobs, func() {
				s := c.script(o, false, 0, "")
				r := discharge(s, time.Duration(*to)*time.Second, *showModel)
				o.Solver, o.TimeMS = r.Solver, r.MS
				switch r.Status {
				case "unsat":
					o.Status = "proved"
				case "sat":
					o.Status = "failed"
					o.Model = r.Output
				default:
					o.Status = "unknown:" + r.Status
					if r.Status == "error" {
						o.Model = r.Output
					}
				}
			})
		}
	}
	dischargeAll(jobs, *jobsN)
	np := 0
	nex := 0
	for _, o := range all {
		if o.Status == "proved" {
			np++
			if *verbose {
				fmt.Printf("  ok   %-80s %s %dms ~%s\n", o.Name, o.Solver, o.TimeMS, o.Stable)
			}
			continue
		}
		if sp := e.Specs.Funcs[o.Func]; sp != nil && excepted(sp, o) {
			nex++
			if *verbose {
				fmt.Printf("  excepted %s  @%s ~%s\n", o.Name, o.Pos, o.Stable)
			}
			continue
		}
		fmt.Printf("  %-8s %s  @%s ~%s\n", o.Status, o.Name, o.Pos, o.Stable)
		if *showModel && o.Model != "" {
			fmt.Println(indent(o.Model, "      "))
		}
	}
	for _, se := range e.specErrs {
		fmt.Println("SPEC-ERROR", se)
	}
	fmt.Printf("functions=%d obligations=%d proved=%d excepted=%d wall=%.1fs\n", len(fns), len(all), np, nex, time.Since(t0).Seconds())
}

func indent(s, p string) string {
	lines := strings.Split(strings.TrimRight(s, "\n"), "\n")
	if len(lines) > 60 {
		lines = lines[:60]
	}
	return p + strings.Join(lines, "\n"+p)
}

func cmdDump(args []string) {
	fs := flag.NewFlagSet("dump", flag.ExitOnError)
	repo := fs.String("repo", "/repo", "")
	fnf := fs.String("func", "", "function key")
	obl := fs.String("obl", "", "obligation name substring")
	fs.Parse(args)
	e, err := LoadEngine(*repo)
	if err != nil {
		fmt.Println(err)
		os.Exit(3)
	}
	fn := e.byKey[*fnf]
	if fn == nil {
		fmt.Println("no such function; candidates:")
		for k := range e.byKey {
			if strings.Contains(k, *fnf) {
				fmt.Println("  ", k)
			}
		}
		return
	}
	c, err := e.Translate(fn)
	if err != nil {
		fmt.Println(err)
		return
	}
	for _, o := range c.obls {
		if *obl == "" {
			fmt.Println(o.Name)
			continue
		}
		if strings.Contains(o.Name, *obl) {
			fmt.Println(c.script(o, false, 0, ""))
			return
		}
	}
	for _, se := range e.specErrs {
		fmt.Println("SPEC-ERROR", se)
	}
}

func init() {
	debugHooks["addrtaken"] = func(e *Engine) {
		for k, fs := range e.addrTaken {
			var ns []string
			for _, f := range fs {
				ns = append(ns, f.Name())
			}
			fmt.Printf("%s: %v\n", k, ns)
		}
	}
}

func init() {
	debugHooks["join"] = func(e *Engine) {
		for _, j := range castJoinJobs(e) {
			fmt.Printf("%-8s %s :: %s\n", j.O.Status, j.O.Name, j.O.Detail)
		}
	}
}
