package main

// inline.go — summaries of small loop-free helpers by inlining their SSA body at the call site
// (facts only; the helper's own safety obligations are generated when it is verified itself),
// and facts about package-level variables that are written only by init.

import (
	"fmt"
	"go/types"
	"sort"
	"strings"

	"golang.org/x/tools/go/ssa"
)

const inlineMaxInstrs = 120
const inlineMaxDepth = 3

func (e *Engine) inlinable(fn *ssa.Function) bool {
	if len(fn.Blocks) == 0 || len(fn.Blocks) > 24 {
		return false
	}
	n := 0
	for _, b := range fn.Blocks {
		for _, s := range b.Succs {
			if s.Dominates(b) {
				return false // loop
			}
		}
		for _, ins := range b.Instrs {
			switch x := ins.(type) {
			case *ssa.DebugRef:
				continue
			case *ssa.Defer, *ssa.Go, *ssa.Select, *ssa.RunDefers:
				return false
			case *ssa.Call:
				if b, ok := x.Call.Value.(*ssa.Builtin); ok && b.Name() == "recover" {
					return false
				}
			}
			n++
		}
	}
	return n <= inlineMaxInstrs
}

func (c *FnCtx) tryInlineBody(callee *ssa.Function, bindings, args []Val, resType types.Type) (Val, bool) {
	if c.inlDepth >= inlineMaxDepth || !c.E.inlinable(callee) || callee == c.F {
		return Val{}, false
	}
	for _, f := range c.inlStack {
		if f == callee {
			return Val{}, false
		}
	}
	if len(args) != len(callee.Params) || len(bindings) != len(callee.FreeVars) {
		return Val{}, false
	}
	for _, a := range append(append([]Val{}, args...), bindings...) {
		if a.T == "" && a.Place == nil && a.Fn == nil {
			return Val{}, false
		}
	}
	c.fresh++
	ic := *c // shallow copy: maps shared, slices copied back below
	ic.F = callee
	ic.Spec = nil
	ic.pfx = fmt.Sprintf("%si%d_", c.pfx, c.fresh)
	ic.inl = &inlineCtx{originBlk: c.originBlk()}
	ic.inlDepth = c.inlDepth + 1
	ic.inlStack = append(append([]*ssa.Function{}, c.inlStack...), c.F)
	ic.vals = map[ssa.Value]Val{}
	ic.reach = map[int]string{}
	ic.edges = map[[2]int]string{}
	ic.outSt = map[int]map[string]string{}
	ic.loops = nil
	ic.loopOf = nil
	ic.order = nil
	ic.anc = nil
	ic.retSt = nil
	ic.params = map[string]Val{}
	ic.dbgUses = nil
	ic.st = copyState(c.st)
	ic.Name = c.Name
	for i, p := range callee.Params {
		v := args[i]
		v.GT = p.Type()
		ic.vals[p] = v
	}
	for i, fv := range callee.FreeVars {
		v := bindings[i]
		v.GT = fv.Type()
		ic.vals[fv] = v
	}
	ic.analyzeCFG()
	ic.reach[0] = c.reach[c.curBlk]
	for _, b := range ic.order {
		ic.block(b)
	}
	// copy back linear state
	c.decls, c.facts, c.seq, c.fresh, c.litSeq = ic.decls, ic.facts, ic.seq, ic.fresh, ic.litSeq
	c.note("inlined " + fnKey(callee))
	rets := ic.retSt
	if len(rets) == 0 {
		// never returns normally
		c.fact(fmt.Sprintf("(not %s)", c.reach[c.curBlk]))
		return c.havocVal("noret", resType), true
	}
	// merge heap states
	names := map[string]bool{}
	for _, r := range rets {
		for n := range r.State {
			names[n] = true
		}
	}
	var ns []string
	for n := range names {
		ns = append(ns, n)
	}
	sort.Strings(ns)
	for _, n := range ns {
		term := c.heapIn(rets[len(rets)-1].State, n)
		same := true
		for i := len(rets) - 2; i >= 0; i-- {
			t := c.heapIn(rets[i].State, n)
			if t != term {
				same = false
			}
		}
		if same {
			c.st[n] = term
			continue
		}
		for i := len(rets) - 2; i >= 0; i-- {
			term = fmt.Sprintf("(ite %s %s %s)", rets[i].Guard, c.heapIn(rets[i].State, n), term)
		}
		c.setH(n, term)
	}
	// results
	nres := callee.Signature.Results().Len()
	var out []Val
	for k := 0; k < nres; k++ {
		rt := callee.Signature.Results().At(k).Type()
		s := c.M.SortOf(rt)
		last := rets[len(rets)-1].Vals[k]
		if len(rets) == 1 {
			if last.T == "" {
				out = append(out, last)
				continue
			}
			last.GT = rt
			out = append(out, last)
			continue
		}
		term := orOpaque(c, last, s)
		for i := len(rets) - 2; i >= 0; i-- {
			term = fmt.Sprintf("(ite %s %s %s)", rets[i].Guard, orOpaque(c, rets[i].Vals[k], s), term)
		}
		n := c.freshConst("inl_"+mangle(callee.Name()), s)
		c.fact(fmt.Sprintf("(= %s %s)", n, term))
		out = append(out, Val{T: n, S: s, GT: rt})
	}
	// the inlined body returned normally
	if len(rets) > 0 {
		var gs []string
		for _, r := range rets {
			gs = append(gs, r.Guard)
		}
		c.rfact("(or " + strings.Join(gs, " ") + " false)")
	}
	switch len(out) {
	case 0:
		return Val{S: "Tuple"}, true
	case 1:
		return out[0], true
	}
	return Val{S: "Tuple", Tup: out}, true
}

func orOpaque(c *FnCtx, v Val, s Sort) string {
	if v.T == "" {
		return c.freshConst("opaque", s)
	}
	return v.T
}

// ---------- globals written only by init ----------

type globalInfo struct {
	constAfterInit bool
	nonNil         bool
}

func (e *Engine) analyzeGlobals() {
	e.globals = map[string]*globalInfo{}
	type st struct {
		storesOutsideInit int
		escapes           bool
		nonNilStores      int
		stores            int
	}
	info := map[*ssa.Global]*st{}
	get := func(g *ssa.Global) *st {
		if info[g] == nil {
			info[g] = &st{}
		}
		return info[g]
	}
	for fn := range e.allFuncs {
		if len(fn.Blocks) == 0 {
			continue
		}
		isInit := fn.Name() == "init" && fn.Synthetic != ""
		for _, b := range fn.Blocks {
			for _, ins := range b.Instrs {
				var ops []*ssa.Value
				ops = ins.Operands(ops)
				for _, op := range ops {
					if op == nil || *op == nil {
						continue
					}
					g, ok := (*op).(*ssa.Global)
					if !ok {
						continue
					}
					s := get(g)
					switch x := ins.(type) {
					case *ssa.UnOp:
						// load
					case *ssa.Store:
						if x.Addr == ssa.Value(g) {
							s.stores++
							if !isInit || fn.Pkg != g.Pkg {
								s.storesOutsideInit++
							}
							switch v := x.Val.(type) {
							case *ssa.MakeMap, *ssa.MakeClosure, *ssa.Function, *ssa.Alloc, *ssa.MakeSlice, *ssa.MakeChan:
								s.nonNilStores++
							case *ssa.Call:
								_ = v
							}
						} else {
							s.escapes = true
						}
					case *ssa.DebugRef:
					case *ssa.FieldAddr, *ssa.IndexAddr:
						// address of a component: writes through it are possible
						s.escapes = true
					default:
						s.escapes = true
					}
				}
			}
		}
	}
	for g, s := range info {
		if g.Pkg == nil {
			continue
		}
		names := e.globalHeap(g)
		gi := &globalInfo{}
		gi.constAfterInit = !s.escapes && s.storesOutsideInit == 0
		gi.nonNil = gi.constAfterInit && s.stores > 0 && s.nonNilStores == s.stores
		e.globals[names[0]] = gi
	}
}

func (e *Engine) isConstGlobalName(name string) bool {
	gi := e.globals[name]
	return gi != nil && gi.constAfterInit
}

// globalFacts: entry facts for init-only globals (not when verifying init itself)
func (e *Engine) globalFacts(c *FnCtx) {
	if c.isInit() {
		return
	}
	var names []string
	for n, gi := range e.globals {
		if gi.nonNil && c.heapsUsed[n] != "" {
			names = append(names, n)
		}
	}
	sort.Strings(names)
	for _, n := range names {
		c.gfact(fmt.Sprintf("(not (= %s 0))", c.heapIn(c.entry, n)))
	}
}

// ---------- local variable cells that no callee can write ----------

// calleeImmutable: the Alloc is a local variable whose address is used only by this function's own
// loads/stores and is captured only by closures that merely read it. No callee can then modify it,
// whatever else it havocs.
func (e *Engine) calleeImmutable(a *ssa.Alloc) bool {
	return e.addrOnlyLocal(a, 0)
}

func (e *Engine) addrOnlyLocal(v ssa.Value, depth int) bool {
	if depth > 3 {
		return false
	}
	refs := v.Referrers()
	if refs == nil {
		return false
	}
	for _, r := range *refs {
		switch x := r.(type) {
		case *ssa.DebugRef:
		case *ssa.UnOp:
			// load
		case *ssa.Store:
			if x.Addr != v {
				return false // the address itself is stored somewhere
			}
		case *ssa.FieldAddr:
			if !e.fieldAddrLocal(x) {
				return false
			}
		case *ssa.IndexAddr:
			if !e.fieldAddrLocal(x) {
				return false
			}
		case *ssa.MakeClosure:
			fn := x.Fn.(*ssa.Function)
			for i, b := range x.Bindings {
				if b == v {
					if i >= len(fn.FreeVars) || !e.freeVarReadOnly(fn.FreeVars[i], depth+1) {
						return false
					}
				}
			}
		default:
			return false
		}
	}
	return true
}

func (e *Engine) fieldAddrLocal(v ssa.Value) bool {
	refs := v.Referrers()
	if refs == nil {
		return false
	}
	for _, r := range *refs {
		switch x := r.(type) {
		case *ssa.DebugRef, *ssa.UnOp:
		case *ssa.Store:
			if x.Addr != v {
				return false
			}
		case *ssa.FieldAddr, *ssa.IndexAddr:
			if !e.fieldAddrLocal(x.(ssa.Value)) {
				return false
			}
		default:
			return false
		}
	}
	return true
}

func (e *Engine) freeVarReadOnly(fv *ssa.FreeVar, depth int) bool {
	refs := fv.Referrers()
	if refs == nil {
		return true
	}
	for _, r := range *refs {
		switch x := r.(type) {
		case *ssa.DebugRef, *ssa.UnOp:
		case *ssa.FieldAddr:
			// reading through a field address is fine as long as nothing is stored through it
			if !e.readOnlyAddr(x) {
				return false
			}
		case *ssa.IndexAddr:
			if !e.readOnlyAddr(x) {
				return false
			}
		case *ssa.MakeClosure:
			fn := x.Fn.(*ssa.Function)
			for i, b := range x.Bindings {
				if b == ssa.Value(fv) {
					if depth > 3 || i >= len(fn.FreeVars) || !e.freeVarReadOnly(fn.FreeVars[i], depth+1) {
						return false
					}
				}
			}
		default:
			return false
		}
	}
	return true
}

func (e *Engine) readOnlyAddr(v ssa.Value) bool {
	refs := v.Referrers()
	if refs == nil {
		return true
	}
	for _, r := range *refs {
		switch x := r.(type) {
		case *ssa.DebugRef, *ssa.UnOp:
		case *ssa.FieldAddr, *ssa.IndexAddr:
			if !e.readOnlyAddr(x.(ssa.Value)) {
				return false
			}
		default:
			return false
		}
	}
	return true
}

type protCell struct {
	ref   string
	heaps []string
	alloc *ssa.Alloc
}

// restoreProtected: after a havoc caused by a call, the rows of callee-immutable local cells are unchanged
func (c *FnCtx) restoreProtected(pre map[string]string) {
	c.restoreProtectedExcept(pre, nil)
}

func (c *FnCtx) restoreProtectedExcept(pre map[string]string, written map[*ssa.Alloc]bool) {
	for _, pc := range c.protected {
		if written[pc.alloc] {
			continue
		}
		for _, h := range pc.heaps {
			old := c.heapIn(pre, h)
			cur := c.H(h)
			if old != cur {
				c.fact(fmt.Sprintf("(= (select %s %s) (select %s %s))", cur, pc.ref, old, pc.ref))
			}
		}
	}
}
