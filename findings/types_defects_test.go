// dir: loader
// Demonstrations for the "fix: types: ..." commits; each case failed on the pinned tree (cebd062).
package loader_test

import (
	"context"
	"reflect"
	"testing"

	"github.com/compose-spec/compose-go/v2/loader"
	"github.com/compose-spec/compose-go/v2/types"
)

func loadStr(t *testing.T, content string, opts ...func(*loader.Options)) (*types.Project, error) {
	t.Helper()
	o := append([]func(*loader.Options){func(o *loader.Options) { o.SetProjectName("demo", true); o.SkipResolveEnvironment = true; o.ResolvePaths = false }}, opts...)
	return loader.LoadWithContext(context.Background(), types.ConfigDetails{WorkingDir: "/tmp/demo",
		ConfigFiles: []types.ConfigFile{{Filename: "compose.yaml", Content: []byte(content)}}, Environment: map[string]string{}}, o...)
}

func TestTypesDefects(t *testing.T) {
	t.Run("ssh-key-with-path-reloads", func(t *testing.T) {
		p, err := loadStr(t, "services: {a: {image: x, build: {context: ., ssh: [k=/p]}}}")
		if err != nil {
			t.Fatal(err)
		}
		y, err := p.MarshalYAML()
		if err != nil {
			t.Fatal(err)
		}
		if _, err := loadStr(t, string(y)); err != nil {
			t.Fatalf("YAML rendering does not reload: %v\n%s", err, y)
		}
		j, err := p.MarshalJSON()
		if err != nil {
			t.Fatalf("JSON rendering fails: %v", err)
		}
		if _, err := loadStr(t, string(j)); err != nil {
			t.Fatalf("JSON rendering does not reload: %v\n%s", err, j)
		}
	})
	t.Run("ssh-keys-order-deterministic", func(t *testing.T) {
		var first types.SSHConfig
		for i := 0; i < 40; i++ {
			p, err := loadStr(t, "services: {a: {image: x, build: {context: ., ssh: [a=/1, b=/2, c=/3, d=/4]}}}")
			if err != nil {
				t.Fatal(err)
			}
			got := p.Services["a"].Build.SSH
			if first == nil {
				first = got
			} else if !reflect.DeepEqual(first, got) {
				t.Fatalf("load %d gave %v, first load gave %v", i, got, first)
			}
		}
	})
	t.Run("env_file-format-kept", func(t *testing.T) {
		p, err := loadStr(t, "services: {a: {image: x, env_file: [{path: ./e.env, format: raw}]}}")
		if err != nil {
			t.Fatal(err)
		}
		y, _ := p.MarshalYAML()
		q, err := loadStr(t, string(y))
		if err != nil {
			t.Fatal(err)
		}
		if q.Services["a"].EnvFiles[0].Format != "raw" {
			t.Fatalf("format lost in rendering:\n%s", y)
		}
	})
	t.Run("pruning-does-not-share-label-maps", func(t *testing.T) {
		p, err := loadStr(t, "services: {a: {image: x, networks: [n]}}\nnetworks: {n: {labels: {k: v}}}")
		if err != nil {
			t.Fatal(err)
		}
		q := p.WithoutUnnecessaryResources()
		err = nil
		if err != nil {
			t.Fatal(err)
		}
		q.Networks["n"].Labels["k"] = "changed"
		if p.Networks["n"].Labels["k"] != "v" {
			t.Fatal("mutating the pruned project changed the receiver")
		}
	})
	for name, c := range map[string]string{
		"command-number-element":     "services: {a: {image: x, command: [a, 1]}}",
		"healthcheck-number-element": "services: {a: {image: x, healthcheck: {test: [CMD, 1]}}}",
		"ulimit-float":               "services: {a: {image: x, ulimits: {nofile: {soft: 1.5, hard: 2}}}}",
	} {
		t.Run(name, func(t *testing.T) {
			defer func() {
				if r := recover(); r != nil {
					t.Fatalf("PANIC: %v", r)
				}
			}()
			_, _ = loadStr(t, c, func(o *loader.Options) { o.SkipValidation = true })
		})
	}
}
