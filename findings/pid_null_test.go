// dir: loader
// Demonstration for "fix: loader: a null pid ...": schema-valid `pid:` (null) panicked in Normalize.
package loader_test

import (
	"context"
	"testing"

	"github.com/compose-spec/compose-go/v2/loader"
	"github.com/compose-spec/compose-go/v2/types"
)

func TestPidNull(t *testing.T) {
	defer func() {
		if r := recover(); r != nil {
			t.Fatalf("PANIC: %v", r)
		}
	}()
	_, err := loader.LoadWithContext(context.Background(), types.ConfigDetails{WorkingDir: t.TempDir(),
		ConfigFiles: []types.ConfigFile{{Filename: "compose.yaml", Content: []byte("services:\n  a:\n    image: x\n    pid:\n")}}, Environment: map[string]string{}},
		func(o *loader.Options) { o.SetProjectName("demo", true) })
	if err != nil {
		t.Fatalf("schema-valid document rejected: %v", err)
	}
}
