package main

// triggers.go — explicit E-matching patterns for quantifiers written in contracts.

import (
	"strings"
)

type sexp struct {
	atom string
	kids []*sexp
}

func parseSexp(s string) *sexp {
	pos := 0
	var parse func() *sexp
	parse = func() *sexp {
		for pos < len(s) && (s[pos] == ' ' || s[pos] == '\n' || s[pos] == '\t') {
			pos++
		}
		if pos >= len(s) {
			return nil
		}
		if s[pos] == '(' {
			pos++
			n := &sexp{}
			for {
				for pos < len(s) && (s[pos] == ' ' || s[pos] == '\n' || s[pos] == '\t') {
					pos++
				}
				if pos >= len(s) {
					return n
				}
				if s[pos] == ')' {
					pos++
					return n
				}
				k := parse()
				if k == nil {
					return n
				}
				n.kids = append(n.kids, k)
			}
		}
		st := pos
		for pos < len(s) && s[pos] != ' ' && s[pos] != '(' && s[pos] != ')' && s[pos] != '\n' {
			pos++
		}
		return &sexp{atom: s[st:pos]}
	}
	return parse()
}

func (x *sexp) String() string {
	if x.kids == nil && x.atom != "" {
		return x.atom
	}
	var ps []string
	for _, k := range x.kids {
		ps = append(ps, k.String())
	}
	return "(" + strings.Join(ps, " ") + ")"
}

var nonTriggerHeads = map[string]bool{"and": true, "or": true, "not": true, "=>": true, "=": true, "ite": true, "<": true, "<=": true, ">": true, ">=": true,
	"+": true, "-": true, "*": true, "div": true, "mod": true, "forall": true, "exists": true, "!": true, "let": true, "distinct": true}

func (x *sexp) vars(bound map[string]bool, out map[string]bool) {
	if x.kids == nil {
		if bound[x.atom] {
			out[x.atom] = true
		}
		return
	}
	for _, k := range x.kids {
		k.vars(bound, out)
	}
}

func (x *sexp) head() string {
	if len(x.kids) > 0 && x.kids[0].kids == nil {
		return x.kids[0].atom
	}
	if len(x.kids) > 0 && len(x.kids[0].kids) > 0 {
		// ((_ is a_map) x) style
		return "(" + x.kids[0].String() + ")"
	}
	return ""
}

// inferPatterns returns alternative single-term patterns each covering all bound vars, or one
// multi-pattern when no single term covers them all.
func inferPatterns(body string, boundVars []string) string {
	bound := map[string]bool{}
	for _, v := range boundVars {
		bound[v] = true
	}
	root := parseSexp(body)
	if root == nil {
		return ""
	}
	type cand struct {
		text string
		vs   map[string]bool
	}
	var cands []cand
	seen := map[string]bool{}
	var walk func(x *sexp, underQuant bool)
	walk = func(x *sexp, underQuant bool) {
		if x.kids == nil {
			return
		}
		h := x.head()
		if h == "forall" || h == "exists" {
			// do not take triggers from inside nested quantifiers (their vars are not ours)
			return
		}
		for _, k := range x.kids {
			walk(k, underQuant)
		}
		if nonTriggerHeads[h] || h == "" || strings.HasPrefix(h, "(") {
			return
		}
		vs := map[string]bool{}
		x.vars(bound, vs)
		if len(vs) == 0 {
			return
		}
		t := x.String()
		if seen[t] || strings.Contains(t, "(ite ") || strings.Contains(t, "(=> ") || strings.Contains(t, "(and ") || strings.Contains(t, "(or ") || strings.Contains(t, "(not ") {
			return
		}
		// prefer minimal terms: skip if some kid (non-arithmetic application) already covers the same vars
		for _, k := range x.kids[1:] {
			if k.kids != nil && !nonTriggerHeads[k.head()] && k.head() != "" {
				kv := map[string]bool{}
				k.vars(bound, kv)
				if len(kv) == len(vs) {
					return
				}
			}
		}
		seen[t] = true
		cands = append(cands, cand{t, vs})
	}
	walk(root, false)
	var full []string
	for _, c := range cands {
		if len(c.vs) == len(boundVars) {
			full = append(full, c.text)
		}
	}
	if len(full) > 0 {
		if len(full) > 6 {
			full = full[:6]
		}
		var b strings.Builder
		for _, f := range full {
			b.WriteString(" :pattern (" + f + ")")
		}
		return b.String()
	}
	// multi-pattern: greedily cover all vars
	covered := map[string]bool{}
	var parts []string
	for _, c := range cands {
		add := false
		for v := range c.vs {
			if !covered[v] {
				add = true
			}
		}
		if add {
			parts = append(parts, c.text)
			for v := range c.vs {
				covered[v] = true
			}
		}
	}
	if len(covered) == len(boundVars) && len(parts) > 0 {
		return " :pattern (" + strings.Join(parts, " ") + ")"
	}
	return ""
}
