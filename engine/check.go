package main

// check.go — the registered check: one property, all its claimed obligations, evidence, verdict.

import (
	"bufio"
	"encoding/json"
	"flag"
	"fmt"
	"os"
	"os/exec"
	"path/filepath"
	"reflect"
	"sort"
	"strings"
	"sync/atomic"
	"time"

	"golang.org/x/tools/go/ssa"
)

type Job struct {
	O      *Obligation
	Script func() string // full script
	Ctx    *FnCtx
	Struct bool // decided structurally (no solver)
}

type knownFinding struct {
	Prop, Obl, Desc string
}

func loadKnownFindings(path string) []knownFinding {
	var r []knownFinding
	fh, err := os.Open(path)
	if err != nil {
		return nil
	}
	defer fh.Close()
	sc := bufio.NewScanner(fh)
	for sc.Scan() {
		line := strings.TrimSpace(sc.Text())
		if !strings.HasPrefix(line, "finding:") {
			continue
		}
		fs := strings.Fields(strings.TrimPrefix(line, "finding:"))
		kf := knownFinding{}
		var rest []string
		for _, f := range fs {
			switch {
			case strings.HasPrefix(f, "property="):
				kf.Prop = strings.TrimPrefix(f, "property=")
			case strings.HasPrefix(f, "obligation="):
				kf.Obl = strings.TrimPrefix(f, "obligation=")
			default:
				rest = append(rest, f)
			}
		}
		kf.Desc = strings.Join(rest, " ")
		r = append(r, kf)
	}
	return r
}

func hasProp(ps []string, p string) bool {
	for _, x := range ps {
		if x == p {
			return true
		}
	}
	return false
}

var k1Kinds = map[string]bool{"typeassert": true, "index": true, "slice": true, "nilmap": true, "nilderef": true, "div": true,
	"panic": true, "nilfunc": true, "nilbox": true, "nilrecv": true, "makeslice": true, "ifacecmp": true, "mapkey": true}

func cmdCheck(args []string) int {
	fs := flag.NewFlagSet("check", flag.ExitOnError)
	repo := fs.String("repo", "/repo", "")
	prop := fs.String("property", "", "")
	tier := fs.String("tier", "quick", "")
	verif := fs.String("verif", "/verif", "")
	fs.Parse(args)
	t0 := time.Now()
	seed := 0
	fmt.Sscanf(os.Getenv("VERIF_SEED"), "%d", &seed)
	timeout := 45 * time.Second
	if *tier == "thorough" {
		timeout = 120 * time.Second
	}
	e, err := LoadEngine(*repo)
	if err != nil {
		fmt.Println("ENGINE-ERROR", err)
		return 3
	}
	P := *prop
	ev := &Evidence{PropertyID: P, Tier: *tier, Seed: seed, Level: "proof"}
	// contract-file scan
	for _, se := range e.Specs.Errors {
		fmt.Println("SPEC-ERROR", se)
	}
	var jobs []*Job
	var fnsUnder []map[string]any
	var covers []string
	vacuous := 0
	// 1. functions under contract for this property
	var keys []string
	for k, s := range e.Specs.Funcs {
		if s.Props[P] {
			keys = append(keys, k)
		}
	}
	sort.Strings(keys)
	ctxs := map[string]*FnCtx{}
	var unclaimed []string
	var trustedFns []string
	var coverCtx []*FnCtx
	for _, k := range keys {
		spec := e.Specs.Funcs[k]
		fn := e.byKey[k]
		if fn == nil {
			// contract for a function that no longer exists: stale contract = undischarged
			o := &Obligation{Name: k + "/stale-contract", Kind: "stale", Func: k, Status: "failed", Detail: "function not found in current tree"}
			jobs = append(jobs, &Job{O: o, Struct: true})
			continue
		}
		c, err := e.Translate(fn)
		if err != nil {
			o := &Obligation{Name: k + "/translate", Kind: "engine", Func: k, Status: "failed", Detail: err.Error()}
			jobs = append(jobs, &Job{O: o, Struct: true})
			continue
		}
		ctxs[k] = c
		nK1, nK2 := 0, 0
		for _, o := range c.obls {
			take := false
			if excepted(spec, o) {
				unclaimed = append(unclaimed, o.Name)
				continue
			}
			if k1Kinds[o.Kind] {
				take = hasProp(spec.NoPanic, P)
			} else if o.Kind == "precondition" || o.Kind == "closure-precondition" {
				take = true
			} else if strings.HasPrefix(o.Kind, "autoinv") {
				take = true
			} else {
				take = len(o.Props) == 0 || hasProp(o.Props, P)
			}
			if !take {
				continue
			}
			if k1Kinds[o.Kind] {
				nK1++
			} else {
				nK2++
			}
			o := o
			jobs = append(jobs, &Job{O: o, Ctx: c, Script: func() string { return c.script(o, false, 0, "") }})
		}
		var notes []string
		for n := range c.notes {
			notes = append(notes, n)
		}
		sort.Strings(notes)
		if spec.Trusted {
			trustedFns = append(trustedFns, k+" ("+spec.Where+")")
		}
		fnsUnder = append(fnsUnder, map[string]any{"function": k, "safety_obligations": nK1, "contract_obligations": nK2, "abstractions": notes, "contract_at": spec.Where})
		coverCtx = append(coverCtx, c)
	}
	// vacuity covers (parallel): some return must be reachable under requires + invariants
	covRes := make([]string, len(coverCtx))
	var covJobs []func()
	for i, c := range coverCtx {
		i, c := i, c
		covJobs = append(covJobs, func() {
			cov := "no-return"
			for _, r := range c.retSt {
				s := c.script(nil, true, r.Block, r.Guard)
				res := runSolver("z3-new", s, 2*time.Second, false)
				if res.Status != "unsat" {
					cov = "reachable(" + res.Status + ")"
					break
				}
				cov = "unsat"
			}
			covRes[i] = cov
		})
	}
	dischargeAll(covJobs, 16)
	for i, c := range coverCtx {
		if covRes[i] == "unsat" {
			vacuous++
			fmt.Printf("VACUOUS %s: no return is reachable under its requires/invariants\n", c.Name)
		}
		covers = append(covers, c.Name+": "+covRes[i])
	}
	// 2. property-specific structural / table obligations
	for _, pj := range propertyProviders(e, P, *tier) {
		jobs = append(jobs, pj)
	}
	// discharge
	var undischarged, skipped int64
	failFast := int64(16)
	if *tier == "thorough" {
		failFast = 64
	}
	var fns []func()
	for _, j := range jobs {
		j := j
		if j.Struct || j.Script == nil {
			continue
		}
		fns = append(fns, func() {
			if atomic.LoadInt64(&undischarged) >= failFast {
				// the run already reports violations: the remaining obligations are not attempted
				j.O.Status = "unknown:not-attempted"
				j.O.Model = fmt.Sprintf("not attempted: %d obligations of this run already failed to discharge", failFast)
				atomic.AddInt64(&skipped, 1)
				return
			}
			r := discharge(j.Script(), timeout, false)
			if r.Status != "unsat" {
				atomic.AddInt64(&undischarged, 1)
			}
			j.O.Solver, j.O.TimeMS = r.Solver, r.MS
			switch r.Status {
			case "unsat":
				j.O.Status = "proved"
			case "sat":
				j.O.Status = "failed"
			default:
				j.O.Status = "unknown:" + r.Status
				j.O.Model = r.Output
			}
		})
	}
	dischargeAll(fns, 16)
	// thorough tier: a second solver must not contradict a proof, and the must-fail corpus is replayed
	contradictions := 0
	var corpus []map[string]any
	if *tier == "thorough" {
		var xs []func()
		for _, j := range jobs {
			j := j
			if j.Struct || j.Script == nil || j.O.Status != "proved" {
				continue
			}
			other := "z3"
			if j.O.Solver == "z3" {
				other = "z3-new"
			}
			xs = append(xs, func() {
				r := runSolver(other, j.Script(), 20*time.Second, false)
				if r.Status == "sat" {
					j.O.Status = "contradiction"
					j.O.Model = "proved by " + j.O.Solver + " but " + other + " answers sat"
				}
			})
		}
		dischargeAll(xs, 16)
		for _, j := range jobs {
			if j.O.Status == "contradiction" {
				contradictions++
				fmt.Printf("ENGINE-ERROR solvers disagree on %s: %s\n", j.O.Name, j.O.Model)
			}
		}
		if os.Getenv("GOVC_NO_CORPUS") == "" {
			corpus = mustFailCorpus(*verif, *repo, P)
		}
	}
	// verdict
	known := loadKnownFindings(filepath.Join(*verif, "known_findings.txt"))
	total, proved, structural := 0, 0, 0
	var failed []*Job
	notAttempted := 0
	structSamples := 0
	kfHit := map[int]bool{}
	samples := []map[string]any{}
	for _, j := range jobs {
		if j.Struct && j.O.Status == "proved" && structSamples < 4 {
			structSamples++
			samples = append(samples, map[string]any{"obligation": j.O.Name, "kind": j.O.Kind, "solver": "structural (no SMT query)", "detail": truncate(j.O.Detail, 300)})
		}
		total++
		if j.Struct {
			structural++
		}
		if j.O.Status == "proved" {
			proved++
			if len(samples) < 8 && !j.Struct {
				samples = append(samples, map[string]any{"obligation": j.O.Name, "kind": j.O.Kind, "solver": j.O.Solver, "ms": j.O.TimeMS, "at": j.O.Pos})
			}
			continue
		}
		if j.O.Status == "unknown:not-attempted" {
			notAttempted++
			continue
		}
		isKnown := false
		for i, kf := range known {
			if kf.Prop == P && kf.Obl == j.O.Name {
				isKnown = true
				kfHit[i] = true
				fmt.Printf("KNOWN-FINDING: property=%s %s %s\n", P, kf.Obl, kf.Desc)
			}
		}
		if !isKnown {
			failed = append(failed, j)
		}
	}
	for i, kf := range known {
		if kf.Prop == P && !kfHit[i] {
			fmt.Printf("NOTE: known finding no longer fails (or obligation renamed): %s\n", kf.Obl)
		}
	}
	violations := 0
	if notAttempted > 0 {
		fmt.Printf("NOTE: %d obligations not attempted after %d failed to discharge (fail-fast); the run is a violation report, not a coverage record\n", notAttempted, failFast)
	}
	os.MkdirAll(filepath.Join(*verif, "replay", P), 0o755)
	for _, j := range failed {
		violations++
		rp := writeReplay(e, *verif, P, j)
		suffix := ""
		if !rp.Confirmed {
			suffix = " no-failing-input-found"
		}
		fmt.Printf("VIOLATION property=%s replay=%s%s\n", P, rp.Path, suffix)
		fmt.Printf("  obligation %s (%s) status=%s at %s\n", j.O.Name, j.O.Kind, j.O.Status, j.O.Pos)
	}
	if len(e.specErrs) > 0 {
		for _, se := range e.specErrs {
			fmt.Println("SPEC-ERROR", se)
		}
	}
	specBroken := len(e.specErrs) + len(e.Specs.Errors)
	// evidence
	ev.WallS = time.Since(t0).Seconds()
	ev.Violations = violations
	cov := map[string]any{
		"obligations": total - len(kfHit), "discharged": proved, "not_attempted_fail_fast": notAttempted,
		"obligations_generated":        total,
		"known_finding_obligations":    len(kfHit),
		"inactive_clauses":             len(e.Specs.Inactive),
		"unclaimed_safety_obligations": unclaimed,
		"trusted_function_contracts":   trustedFns,
		"solver_contradictions":        contradictions,
		"must_fail_corpus":             corpus,
		"checker_cmd":                  fmt.Sprintf("/verif/bin/govc check --property %s --tier %s  (VC generator over go/ssa of /repo working tree, -tags verif; solvers z3-new 5.1.0, z3 4.8.12, cvc5 1.0 raced)", P, *tier),
		"trusted_base":                 trustedBase(e, keys),
		"functions_under_contract":     fnsUnder,
		"structural_obligations":       structural,
		"solver_wins":                  solverStats.wins,
		"solver_ms":                    solverStats.ms,
		"reachability_covers":          covers,
		"vacuous_functions":            vacuous,
		"samples":                      samples,
		"known_findings_hit":           len(kfHit),
		"contract_scan_assume_hits":    e.Specs.Scan,
		"spec_errors":                  specBroken,
		"integer_semantics":            "mathematical integers with the declared type's range as a fact on inputs; overflow NOT checked (unchecked assumption)",
		"undecided_clauses":            undecidedClauses[P],
		"bounded":                      []string{},
		"assumed_frames":               assumedFrames(e, keys),
	}
	for k, v := range map[string]any{"unclaimed_safety_obligations": unclaimed, "trusted_function_contracts": trustedFns, "functions_under_contract": fnsUnder, "reachability_covers": covers} {
		if rv := reflect.ValueOf(v); !rv.IsValid() || (rv.Kind() == reflect.Slice && rv.IsNil()) {
			cov[k] = []string{}
		}
	}
	for _, k := range []string{"must_fail_corpus", "undecided_clauses"} {
		if rv := reflect.ValueOf(cov[k]); !rv.IsValid() || ((rv.Kind() == reflect.Slice || rv.Kind() == reflect.Map) && rv.IsNil()) {
			cov[k] = []string{}
		}
	}
	ev.Coverage = cov
	ev.Assumptions = assumptionsFor(e, keys)
	writeEvidence(filepath.Join(*verif, "evidence", P+".json"), ev)
	fmt.Printf("property=%s tier=%s functions=%d obligations=%d discharged=%d structural=%d known=%d violations=%d wall=%.1fs\n",
		P, *tier, len(keys), total, proved, structural, len(kfHit), violations, ev.WallS)
	if vacuous > 0 || specBroken > 0 {
		fmt.Println("ENGINE-ERROR vacuous contract or spec error")
		return 3
	}
	if total == 0 {
		fmt.Println("ENGINE-ERROR zero obligations generated")
		return 3
	}
	if violations > 0 {
		return 1
	}
	return 0
}

type Evidence struct {
	PropertyID  string         `json:"property_id"`
	Tier        string         `json:"tier"`
	Seed        int            `json:"seed"`
	Level       string         `json:"level"`
	Coverage    map[string]any `json:"coverage"`
	Assumptions []string       `json:"assumptions"`
	WallS       float64        `json:"wall_s"`
	Violations  int            `json:"violations"`
}

func writeEvidence(path string, ev *Evidence) {
	os.MkdirAll(filepath.Dir(path), 0o755)
	b, _ := json.MarshalIndent(ev, "", " ")
	os.WriteFile(path, b, 0o644)
}

func trustedBase(e *Engine, keys []string) []string {
	tb := []string{
		"golang.org/x/tools/go/ssa + go/types (front end: the SSA verified is built from /repo's files with -tags verif)",
		"govc VC generator (/verif/engine) — mitigated by reachability covers and the must-fail selftest corpus",
		"SMT solvers z3 5.1.0 / z3 4.8.12 / cvc5 1.0",
		"Go semantics as encoded in DESIGN.md 2.2 (mathematical integers, string/slice/map/interface models)",
	}
	seen := map[string]bool{}
	for _, k := range keys {
		for x := range e.usedX[k] {
			if !seen[x] {
				seen[x] = true
				tb = append(tb, "assumed external contract: "+x)
			}
		}
	}
	sort.Strings(tb[4:])
	return tb
}

func assumptionsFor(e *Engine, keys []string) []string {
	var r []string
	seenC := map[string]bool{}
	for _, k := range keys {
		for cal := range e.usedC[k] {
			if !seenC[cal] {
				seenC[cal] = true
			}
		}
	}
	var cs []string
	for c := range seenC {
		cs = append(cs, c)
	}
	sort.Strings(cs)
	for _, c := range cs {
		r = append(r, "callee contract used (proved where that function is checked): "+c)
	}
	for _, a := range assumedFrames(e, keys) {
		r = append(r, a)
	}
	r = append(r,
		"calls without a contract: result and every heap class the callee may write (static MOD analysis) are havocked; small loop-free helpers are inlined",
		"pointer receivers are non-nil (implicit precondition, obliged at static call sites as nilrecv)",
		"goroutines/channels/select are not interleaved; defer effects applied at RunDefers",
		"termination only where a decreases clause is discharged",
	)
	return r
}

// assumedFrames: assigns/pure clauses relied upon by the functions of this property whose own frame
// obligation is excepted (not proved) in the function that carries the clause.
func assumedFrames(e *Engine, keys []string) []string {
	seen := map[string]bool{}
	for _, k := range keys {
		seen[k] = true
		for cal := range e.usedC[k] {
			seen[cal] = true
		}
	}
	r := []string{}
	for k := range seen {
		sp := e.Specs.Funcs[k]
		if sp == nil || !sp.HasAssigns {
			continue
		}
		fe := sp.frameExcepted()
		if len(fe) == 0 {
			continue
		}
		var hs []string
		for h := range fe {
			hs = append(hs, h)
		}
		sort.Strings(hs)
		r = append(r, fmt.Sprintf("ASSUMED frame (unproved): callers rely on the assigns/pure clause of %s, whose frame obligation does not discharge for %d heap classes (%s)", k, len(hs), truncate(strings.Join(hs, ", "), 160)))
	}
	sort.Strings(r)
	return r
}

var undecidedClauses = map[string][]string{}

type replayInfo struct {
	Path      string
	Confirmed bool
}

func writeReplay(e *Engine, verif, P string, j *Job) replayInfo {
	name := mangle(j.O.Name)
	if len(name) > 150 {
		name = name[:150]
	}
	path := filepath.Join(verif, "replay", P, name+".json")
	rec := map[string]any{
		"property": P, "obligation": j.O.Name, "kind": j.O.Kind, "function": j.O.Func, "position": j.O.Pos,
		"status": j.O.Status, "solver": j.O.Solver, "detail": j.O.Detail, "solver_output": truncate(j.O.Model, 4000),
	}
	confirmed := false
	if j.Ctx != nil && j.Script != nil {
		cm, ok := candidateModel(j)
		rec["candidate_model"] = cm
		if ok {
			rr := tryReplay(e, j, cm)
			rec["replay"] = rr
			if c, _ := rr["confirmed"].(bool); c {
				confirmed = true
			}
		}
	}
	rec["confirmed_on_real_code"] = confirmed
	b, _ := json.MarshalIndent(rec, "", " ")
	os.WriteFile(path, b, 0o644)
	return replayInfo{Path: path, Confirmed: confirmed}
}

func truncate(s string, n int) string {
	if len(s) > n {
		return s[:n] + "…"
	}
	return s
}

var _ = ssa.NewProgram

// excepted: the obligation is listed in the function's `nopanic ... except` list (kind#ordinal)
func excepted(spec *FuncSpec, o *Obligation) bool {
	rest := strings.TrimPrefix(o.Name, o.Func+"/")
	for _, ex := range spec.Except {
		if strings.Contains(ex, "@") {
			// stable form kind@<line hash>#k
			if o.Stable != "" && ex == o.Stable {
				return true
			}
			continue
		}
		if rest == ex || strings.HasPrefix(rest, ex+"[") {
			return true
		}
	}
	return false
}

// mustFailCorpus: apply every seeded property-breaking change of this property to a scratch worktree
// (outside /repo and /verif, removed immediately) and record which obligations of the check fail there.
func mustFailCorpus(verif, repo, P string) []map[string]any {
	seeds, _ := filepath.Glob(filepath.Join(verif, "seeded", P+"-m*"))
	sort.Strings(seeds)
	var out []map[string]any
	exe, _ := os.Executable()
	for _, s := range seeds {
		rec := map[string]any{"seed": filepath.Base(s)}
		patch := filepath.Join(s, "patch_on_fixed_tree.diff")
		if _, err := os.Stat(patch); err != nil {
			patch = filepath.Join(s, "patch.diff")
		}
		wt, err := os.MkdirTemp("", "govc-corpus-wt")
		if err != nil {
			continue
		}
		os.Remove(wt)
		vd, _ := os.MkdirTemp("", "govc-corpus-verif")
		cleanup := func() {
			exec.Command("git", "-C", repo, "worktree", "remove", "--force", wt).Run()
			os.RemoveAll(wt)
			os.RemoveAll(vd)
		}
		if err := exec.Command("git", "-C", repo, "worktree", "add", "-q", "--detach", wt, "HEAD").Run(); err != nil {
			rec["applied"] = false
			rec["reason"] = "cannot create scratch worktree"
			out = append(out, rec)
			cleanup()
			continue
		}
		// the scratch tree must carry the working tree's contract files (they may be uncommitted)
		if err := exec.Command("git", "-C", wt, "apply", patch).Run(); err != nil {
			rec["applied"] = false
			rec["reason"] = "patch does not apply to the current tree"
			out = append(out, rec)
			cleanup()
			continue
		}
		if b, err := os.ReadFile(filepath.Join(verif, "known_findings.txt")); err == nil {
			os.WriteFile(filepath.Join(vd, "known_findings.txt"), b, 0o644)
		}
		cmd := exec.Command(exe, "check", "--property", P, "--tier", "quick", "--repo", wt, "--verif", vd)
		cmd.Env = append(os.Environ(), "GOVC_NO_CORPUS=1")
		b, _ := cmd.CombinedOutput()
		var obls []string
		nv := 0
		for _, ln := range strings.Split(string(b), "\n") {
			if strings.HasPrefix(ln, "VIOLATION") {
				nv++
			}
			if strings.HasPrefix(ln, "  obligation ") && len(obls) < 6 {
				obls = append(obls, strings.Fields(ln)[1])
			}
		}
		rec["applied"] = true
		rec["caught"] = nv > 0
		rec["violations"] = nv
		rec["failing_obligations"] = obls
		out = append(out, rec)
		cleanup()
	}
	return out
}
