package main

// instr.go — semantics of SSA instructions.

import (
	"fmt"
	"go/token"
	"go/types"
	"strings"

	"golang.org/x/tools/go/ssa"
)

func (c *FnCtx) v(x ssa.Value) Val {
	r := c.val(x)
	if r.GT == nil {
		r.GT = x.Type()
	}
	return r
}

// valFacts emits well-formedness facts for a freshly obtained value.
func (c *FnCtx) valFacts(t string, s Sort, gt types.Type) {
	c.valFactsW(t, s, gt, c.H("$wm"))
}

// valFactsW: like valFacts with an explicit watermark bound
func (c *FnCtx) valFactsW(t string, s Sort, gt types.Type, wm string) {
	switch s {
	case SAny:
		c.fact(fmt.Sprintf("(anywf %s %s)", t, wm))
		return
	case SInt:
		if gt != nil {
			switch types.Unalias(gt).Underlying().(type) {
			case *types.Pointer, *types.Map, *types.Chan:
				c.fact(fmt.Sprintf("(and (>= %s 0) (<= %s %s))", t, t, wm))
				return
			}
		}
	}
	c.valFactsOld(t, s, gt)
}

func (c *FnCtx) valFactsOld(t string, s Sort, gt types.Type) {
	switch s {
	case SAny:
		c.fact(fmt.Sprintf("(anywf %s %s)", t, c.H("$wm")))
	case SSlice:
		c.sliceFacts(t)
	case SInt:
		if gt != nil {
			c.typeFacts(t, gt)
		}
	}
}

func (c *FnCtx) nilCheck(v Val, what string, pos token.Pos) {
	if v.Place != nil {
		return
	}
	c.oblige("nilderef", fmt.Sprintf("(not (= %s 0))", v.T), what, pos)
}

func (c *FnCtx) instr(ins ssa.Instruction) {
	switch x := ins.(type) {
	case *ssa.DebugRef:
		return
	case *ssa.Alloc:
		c.alloc(x)
	case *ssa.BinOp:
		c.binop(x)
	case *ssa.UnOp:
		c.unop(x)
	case *ssa.Call:
		c.call(x, &x.Call, x)
	case *ssa.ChangeInterface:
		c.bind(x, c.v(x.X))
	case *ssa.ChangeType:
		v := c.v(x.X)
		if ts := c.M.SortOf(x.Type()); ts != v.S && v.T != "" {
			// conversion between two struct types with identical underlying types: rebuilt field by field
			si, ti := c.M.Struct(v.S), c.M.Struct(ts)
			if si != nil && ti != nil && len(si.Fields) == len(ti.Fields) {
				same := true
				var fs []string
				for i := range si.Fields {
					if si.Fields[i].Sort != ti.Fields[i].Sort {
						same = false
					}
					fs = append(fs, fmt.Sprintf("(%s %s)", si.Sel(i), v.T))
				}
				if same {
					t := "(" + ti.Ctor() + " " + strings.Join(fs, " ") + ")"
					if len(fs) == 0 {
						t = ti.Ctor()
					}
					c.define(x, t, ts)
					return
				}
			}
			c.note("changetype between different sorts: havoc")
			c.bind(x, c.havocVal("chgtype", x.Type()))
			return
		}
		v.GT = x.Type()
		c.bind(x, v)
	case *ssa.Convert:
		c.convert(x)
	case *ssa.MultiConvert:
		c.note("multiconvert")
		c.bind(x, c.havocVal("mconv", x.Type()))
	case *ssa.Extract:
		t := c.v(x.Tuple)
		if x.Index < len(t.Tup) {
			e := t.Tup[x.Index]
			if e.GT == nil {
				e.GT = x.Type()
			}
			c.bind(x, e)
		} else {
			c.bind(x, c.havocVal("extract", x.Type()))
		}
	case *ssa.Field:
		sv := c.v(x.X)
		si := c.M.Struct(sv.S)
		if si == nil {
			c.bind(x, c.havocVal("field", x.Type()))
			return
		}
		c.define(x, fmt.Sprintf("(%s %s)", si.Sel(x.Field), sv.T), si.Fields[x.Field].Sort)
	case *ssa.FieldAddr:
		base := c.v(x.X)
		c.nilCheck(base, x.X.Name()+"."+fieldName(x), x.Pos())
		pl := c.placeOfPointer(base, x.X.Type())
		cs := pl.Sort
		si := c.M.Struct(cs)
		if si == nil {
			c.note("fieldaddr on non-struct place")
			c.bind(x, c.havocVal("faddr", x.Type()))
			return
		}
		np := *pl
		np.Path = append(append([]int{}, pl.Path...), x.Field)
		np.Sort = si.Fields[x.Field].Sort
		np.GoType = si.Fields[x.Field].Type
		c.bind(x, Val{S: SInt, Place: &np, GT: x.Type()})
	case *ssa.Index:
		c.index(x)
	case *ssa.IndexAddr:
		c.indexAddr(x)
	case *ssa.Lookup:
		c.lookup(x)
	case *ssa.MakeChan:
		sz := c.v(x.Size)
		sz.GT = types.Typ[types.Int]
		c.callsiteObligationsNamed("make(chan)", "make(chan)", nil, nil, []Val{sz}, x.Pos())
		c.bind(x, Val{T: c.allocRef("chan"), S: SInt, GT: x.Type()})
	case *ssa.MakeClosure:
		fn := x.Fn.(*ssa.Function)
		var bs []Val
		for _, b := range x.Bindings {
			bs = append(bs, c.v(b))
		}
		id := c.closureTerm(fn, bs)
		c.bind(x, Val{T: id, S: SInt, Fn: &FnVal{Fn: fn, Bindings: bs}, GT: x.Type()})
		if spec := c.E.Specs.Funcs[fnKey(fn)]; spec != nil && len(spec.Requires) > 0 {
			// preconditions of a closure over its captured variables are obliged where it is created
			names := c.calleeEnv(fn, bs, nil)
			for i, cl := range spec.Requires {
				env := &specEnv{c: c, vars: names, st: c.st, old: c.st, bound: map[string]Val{}}
				t, err := env.evalBool(cl.Expr)
				if err != nil {
					c.note("closure precondition mentions a parameter: checked only where statically called")
					continue
				}
				o := c.oblige("closure-precondition", t, fmt.Sprintf("%s/requires%d", fnKey(fn), i+1), x.Pos())
				o.Props = cl.Props
			}
		}
	case *ssa.MakeInterface:
		c.makeInterface(x)
	case *ssa.MakeMap:
		mn, dn, ks, _, _ := c.M.MapHeaps(x.Type())
		r := c.allocRef("newmap")
		c.heapSort(mn)
		c.setH(dn, fmt.Sprintf("(store %s %s ((as const (Array %s Bool)) false))", c.H(dn), r, ks))
		c.bind(x, Val{T: r, S: SInt, GT: x.Type()})
	case *ssa.MakeSlice:
		st := types.Unalias(x.Type()).Underlying().(*types.Slice)
		hn, es := c.M.SliceHeap(st.Elem())
		ln, cp := c.v(x.Len), c.v(x.Cap)
		c.oblige("makeslice", fmt.Sprintf("(and (>= %s 0) (<= %s %s))", ln.T, ln.T, cp.T), "", x.Pos())
		r := c.allocRef("newslice")
		c.setH(hn, fmt.Sprintf("(store %s %s ((as const (Array Int %s)) %s))", c.H(hn), r, es, c.M.Zero(es)))
		c.define(x, fmt.Sprintf("(mk_slice %s 0 %s %s)", r, ln.T, cp.T), SSlice)
	case *ssa.Next:
		c.next(x)
	case *ssa.Range:
		xv := c.v(x.X)
		it := &IterState{X: xv, GoType: x.X.Type()}
		if _, ok := types.Unalias(x.X.Type()).Underlying().(*types.Map); ok {
			it.Kind = "map"
		} else {
			it.Kind = "string"
		}
		c.bind(x, Val{Iter: it, S: "Iter"})
	case *ssa.Select:
		c.note("select: not modelled")
		c.bind(x, c.havocVal("select", x.Type()))
	case *ssa.Slice:
		c.slice(x)
	case *ssa.SliceToArrayPointer:
		c.note("slice-to-array-pointer")
		c.bind(x, c.havocVal("s2a", x.Type()))
	case *ssa.TypeAssert:
		c.typeAssert(x)
	case *ssa.Defer:
		c.note("defer: effects applied at RunDefers")
	case *ssa.RunDefers:
		c.runDefers()
	case *ssa.Go:
		c.note("go statement: not interleaved (C13/C19 schedule clauses undecided)")
		c.callEffects(&x.Call, nil, x.Pos(), true)
	case *ssa.Send:
		c.note("channel send: not modelled")
	case *ssa.If:
		b := x.Block()
		cond := c.v(x.Cond).T
		r := c.reach[b.Index]
		if b.Succs[0] == b.Succs[1] {
			c.edges[[2]int{b.Index, b.Succs[0].Index}] = r
		} else {
			c.edges[[2]int{b.Index, b.Succs[0].Index}] = c.nameBool(fmt.Sprintf("%se_b%d_b%d", c.pfx, b.Index, b.Succs[0].Index), fmt.Sprintf("(and %s %s)", r, cond))
			c.edges[[2]int{b.Index, b.Succs[1].Index}] = c.nameBool(fmt.Sprintf("%se_b%d_b%d", c.pfx, b.Index, b.Succs[1].Index), fmt.Sprintf("(and %s (not %s))", r, cond))
		}
	case *ssa.Jump:
		b := x.Block()
		c.edges[[2]int{b.Index, b.Succs[0].Index}] = c.reach[b.Index]
	case *ssa.MapUpdate:
		c.mapUpdate(x)
	case *ssa.Panic:
		c.oblige("panic", "false", "explicit panic reachable", x.Pos())
	case *ssa.Return:
		var vs []Val
		for _, r := range x.Results {
			vs = append(vs, c.v(r))
		}
		c.seq++
		c.retSt = append(c.retSt, retInfo{Block: c.curBlk, Seq: c.seq, Guard: c.reach[c.curBlk], Vals: vs, State: copyState(c.st)})
	case *ssa.Store:
		c.store(x)
	default:
		c.note(fmt.Sprintf("unhandled instruction %T", ins))
		if v, ok := ins.(ssa.Value); ok {
			c.bind(v, c.havocVal("unk", v.Type()))
		}
	}
}

func (c *FnCtx) nameBool(name, term string) string {
	c.declare(name, SBool)
	c.fact(fmt.Sprintf("(= %s %s)", name, term))
	return name
}

func fieldName(x *ssa.FieldAddr) string {
	pt := types.Unalias(x.X.Type()).Underlying().(*types.Pointer)
	st := types.Unalias(pt.Elem()).Underlying().(*types.Struct)
	return st.Field(x.Field).Name()
}

func (c *FnCtx) alloc(x *ssa.Alloc) {
	et := x.Type().(*types.Pointer).Elem()
	es := c.M.SortOf(et)
	r := c.allocRef("alloc_" + mangle(x.Name()))
	if si := c.M.Struct(es); si != nil {
		c.storeStructPath(si, r, nil, c.M.Zero(es))
	} else if at, ok := types.Unalias(et).Underlying().(*types.Array); ok {
		hn, ees := c.M.SliceHeap(at.Elem())
		c.setH(hn, fmt.Sprintf("(store %s %s ((as const (Array Int %s)) %s))", c.H(hn), r, ees, c.M.Zero(ees)))
	} else {
		hn, _ := c.M.CellHeap(et)
		c.setH(hn, fmt.Sprintf("(store %s %s %s)", c.H(hn), r, c.M.Zero(es)))
	}
	c.bind(x, Val{T: r, S: SInt, GT: x.Type()})
	if c.inl == nil && c.E.calleeImmutable(x) {
		names, _ := c.E.addrHeaps(x)
		c.protected = append(c.protected, protCell{ref: r, heaps: names, alloc: x})
		c.note("local " + x.Comment + " is callee-immutable (captured read-only / never escapes)")
	}
}

func (c *FnCtx) store(x *ssa.Store) {
	addr := c.v(x.Addr)
	val := c.v(x.Val)
	c.nilCheck(addr, "*"+x.Addr.Name(), x.Pos())
	pl := c.placeOfPointer(addr, x.Addr.Type())
	vt := val.T
	if vt == "" {
		// storing a place/function value: opaque
		vt = c.freshConst("opaque", pl.Sort)
		c.note("store of non-first-class value")
	}
	if pl.Kind == PElem && pl.Idx == "" {
		// *arrayptr = arrayvalue
		hn := pl.Heap
		c.setH(hn, fmt.Sprintf("(store %s %s %s)", c.H(hn), pl.Ref, vt))
		return
	}
	c.checkWrite(pl, x.Pos())
	if pl.Sort == SAny && pl.Kind == PElem {
		c.wfSink(vt, x.Val.Name()+" stored in list", x.Pos())
	}
	c.storePlace(pl, vt)
}

func (c *FnCtx) unop(x *ssa.UnOp) {
	switch x.Op {
	case token.MUL:
		addr := c.v(x.X)
		c.nilCheck(addr, "*"+x.X.Name(), x.Pos())
		pl := c.placeOfPointer(addr, x.X.Type())
		if pl.Kind == PElem && pl.Idx == "" {
			hn := pl.Heap
			c.define(x, fmt.Sprintf("(select %s %s)", c.H(hn), pl.Ref), pl.Sort)
			return
		}
		v := c.define(x, c.loadPlace(pl), pl.Sort)
		c.valFacts(v.T, v.S, x.Type())
		c.oldRowFacts(pl, v, x.Type())
		if pl.Kind == PGlobal && len(pl.Path) == 0 {
			if ti := c.E.tables[pl.Name]; ti != nil {
				v.Table = ti
				v.GT = x.Type()
				c.vals[x] = v
			}
		}
	case token.NOT:
		c.define(x, "(not "+c.v(x.X).T+")", SBool)
	case token.SUB:
		v := c.v(x.X)
		if v.S == SFloat {
			c.declareFun("f_neg", []Sort{SFloat}, SFloat)
			c.define(x, "(f_neg "+v.T+")", SFloat)
			return
		}
		c.define(x, "(- "+v.T+")", SInt)
	case token.XOR:
		c.declareFun("bit_not", []Sort{SInt}, SInt)
		d := c.define(x, "(bit_not "+c.v(x.X).T+")", SInt)
		c.typeFacts(d.T, x.Type())
	case token.ARROW:
		c.note("channel receive: havoc")
		c.bind(x, c.havocVal("recv", x.Type()))
	default:
		c.bind(x, c.havocVal("unop", x.Type()))
	}
}

func (c *FnCtx) binop(x *ssa.BinOp) {
	a, b := c.v(x.X), c.v(x.Y)
	s := a.S
	at := a.T
	bt := b.T
	if at == "" {
		at = "0"
	}
	if bt == "" {
		bt = "0"
	}
	switch x.Op {
	case token.EQL, token.NEQ:
		var t string
		switch s {
		case SSlice:
			// only comparison with nil is legal
			other := a
			if isNilConst(x.X) {
				other = b
			}
			t = fmt.Sprintf("(= (s_ref %s) 0)", other.T)
		case SAny:
			if !isNilConst(x.X) && !isNilConst(x.Y) {
				c.oblige("ifacecmp", fmt.Sprintf("(not (or (and ((_ is a_map) %s) ((_ is a_map) %s)) (and ((_ is a_mapaa) %s) ((_ is a_mapaa) %s)) (and ((_ is a_list) %s) ((_ is a_list) %s))))", at, bt, at, bt, at, bt), x.X.Name()+"=="+x.Y.Name(), x.Pos())
			}
			t = fmt.Sprintf("(= %s %s)", at, bt)
		default:
			t = fmt.Sprintf("(= %s %s)", at, bt)
		}
		if x.Op == token.NEQ {
			t = "(not " + t + ")"
		}
		c.define(x, t, SBool)
	case token.LSS, token.LEQ, token.GTR, token.GEQ:
		op := map[token.Token]string{token.LSS: "<", token.LEQ: "<=", token.GTR: ">", token.GEQ: ">="}[x.Op]
		switch s {
		case SInt:
			c.define(x, fmt.Sprintf("(%s %s %s)", op, at, bt), SBool)
		case SStr:
			c.declareFun("str_lt", []Sort{SStr, SStr}, SBool)
			var t string
			switch x.Op {
			case token.LSS:
				t = fmt.Sprintf("(str_lt %s %s)", at, bt)
			case token.GTR:
				t = fmt.Sprintf("(str_lt %s %s)", bt, at)
			case token.LEQ:
				t = fmt.Sprintf("(not (str_lt %s %s))", bt, at)
			case token.GEQ:
				t = fmt.Sprintf("(not (str_lt %s %s))", at, bt)
			}
			c.define(x, t, SBool)
		default:
			c.declareFun("f_lt", []Sort{SFloat, SFloat}, SBool)
			var t string
			switch x.Op {
			case token.LSS:
				t = fmt.Sprintf("(f_lt %s %s)", at, bt)
			case token.GTR:
				t = fmt.Sprintf("(f_lt %s %s)", bt, at)
			case token.LEQ:
				t = fmt.Sprintf("(or (f_lt %s %s) (= %s %s))", at, bt, at, bt)
			case token.GEQ:
				t = fmt.Sprintf("(or (f_lt %s %s) (= %s %s))", bt, at, at, bt)
			}
			c.define(x, t, SBool)
		}
	case token.ADD:
		switch s {
		case SStr:
			c.define(x, fmt.Sprintf("(sconcat %s %s)", at, bt), SStr)
		case SFloat:
			c.declareFun("f_add", []Sort{SFloat, SFloat}, SFloat)
			c.define(x, fmt.Sprintf("(f_add %s %s)", at, bt), SFloat)
		default:
			c.arith(x, fmt.Sprintf("(+ %s %s)", at, bt))
		}
	case token.SUB:
		if s == SFloat {
			c.declareFun("f_sub", []Sort{SFloat, SFloat}, SFloat)
			c.define(x, fmt.Sprintf("(f_sub %s %s)", at, bt), SFloat)
			return
		}
		c.arith(x, fmt.Sprintf("(- %s %s)", at, bt))
	case token.MUL:
		if s == SFloat {
			c.declareFun("f_mul", []Sort{SFloat, SFloat}, SFloat)
			c.define(x, fmt.Sprintf("(f_mul %s %s)", at, bt), SFloat)
			return
		}
		c.arith(x, fmt.Sprintf("(* %s %s)", at, bt))
	case token.QUO:
		if s == SFloat {
			c.declareFun("f_div", []Sort{SFloat, SFloat}, SFloat)
			c.define(x, fmt.Sprintf("(f_div %s %s)", at, bt), SFloat)
			return
		}
		c.oblige("div", fmt.Sprintf("(not (= %s 0))", bt), x.Y.Name(), x.Pos())
		c.arith(x, fmt.Sprintf("(ite (>= %s 0) (div %s %s) (- (div (- %s) %s)))", at, at, bt, at, bt))
	case token.REM:
		c.oblige("div", fmt.Sprintf("(not (= %s 0))", bt), x.Y.Name(), x.Pos())
		c.arith(x, fmt.Sprintf("(ite (>= %s 0) (mod %s (abs %s)) (- (mod (- %s) (abs %s))))", at, at, bt, at, bt))
	default:
		fn := "bit_" + mangle(x.Op.String())
		names := map[token.Token]string{token.AND: "bit_and", token.OR: "bit_or", token.XOR: "bit_xor", token.SHL: "bit_shl", token.SHR: "bit_shr", token.AND_NOT: "bit_andnot"}
		if n, ok := names[x.Op]; ok {
			fn = n
		}
		c.declareFun(fn, []Sort{SInt, SInt}, SInt)
		d := c.define(x, fmt.Sprintf("(%s %s %s)", fn, at, bt), SInt)
		c.typeFacts(d.T, x.Type())
		c.note("bitwise op abstracted as uninterpreted function")
	}
}

// arith: mathematical integers; result wrapped into the type's range only as an unchecked assumption
func (c *FnCtx) arith(x *ssa.BinOp, term string) {
	c.define(x, term, SInt)
}

func isNilConst(v ssa.Value) bool {
	k, ok := v.(*ssa.Const)
	return ok && k.Value == nil
}

func (c *FnCtx) convert(x *ssa.Convert) {
	from, to := x.X.Type(), x.Type()
	fs, ts := c.M.SortOf(from), c.M.SortOf(to)
	v := c.v(x.X)
	switch {
	case fs == ts && ts != SSlice:
		if ts == SInt {
			// integer conversion: identity when in range, else some value in range
			tb, ok := types.Unalias(to).Underlying().(*types.Basic)
			if ok && tb.Info()&types.IsInteger != 0 {
				lo, hi := intRange(tb)
				if fb, ok2 := types.Unalias(from).Underlying().(*types.Basic); ok2 && lo != "" {
					flo, fhi := intRange(fb)
					if flo == lo && fhi == hi || (tb.Kind() == types.Int || tb.Kind() == types.Int64) && fb.Kind() != types.Uint64 && fb.Kind() != types.Uint && fb.Kind() != types.Uintptr {
						c.bind(x, Val{T: v.T, S: SInt, GT: to})
						return
					}
					w := c.freshConst("wrap", SInt)
					c.fact(fmt.Sprintf("(and (>= %s %s) (<= %s %s))", w, lo, w, hi))
					c.define(x, fmt.Sprintf("(ite (and (>= %s %s) (<= %s %s)) %s %s)", v.T, lo, v.T, hi, v.T, w), SInt)
					return
				}
			}
		}
		v.GT = to
		c.bind(x, v)
	case fs == SInt && ts == SStr:
		c.declareFun("str_of_rune", []Sort{SInt}, SStr)
		d := c.define(x, "(str_of_rune "+v.T+")", SStr)
		c.fact(fmt.Sprintf("(and (>= (slen %s) 1) (<= (slen %s) 4) (=> (and (>= %s 0) (< %s 128)) (and (= (slen %s) 1) (= (sat %s 0) %s))))", d.T, d.T, v.T, v.T, d.T, d.T, v.T))
	case fs == SSlice && ts == SStr:
		// string([]byte) / string([]rune)
		st := types.Unalias(from).Underlying().(*types.Slice)
		n := c.freshConst("str_of_slice", SStr)
		if eb, ok := types.Unalias(st.Elem()).Underlying().(*types.Basic); ok && eb.Kind() == types.Uint8 {
			bh, _ := c.M.SliceHeap(st.Elem())
			h := c.H(bh)
			c.fact(fmt.Sprintf("(= (slen %s) (s_len %s))", n, v.T))
			c.fact(fmt.Sprintf("(forall ((i Int)) (! (=> (and (<= 0 i) (< i (s_len %s))) (= (sat %s i) (select (select %s (s_ref %s)) (+ (s_off %s) i)))) :pattern ((sat %s i))))", v.T, n, h, v.T, v.T, n))
		} else {
			c.fact(fmt.Sprintf("(>= (slen %s) (s_len %s))", n, v.T))
		}
		c.bind(x, Val{T: n, S: SStr, GT: to})
	case fs == SStr && ts == SSlice:
		st := types.Unalias(to).Underlying().(*types.Slice)
		r := c.allocRef("bytes")
		row := c.freshConst("row", "(Array Int Int)")
		hn, _ := c.M.SliceHeap(st.Elem())
		var ln string
		if eb, ok := types.Unalias(st.Elem()).Underlying().(*types.Basic); ok && eb.Kind() == types.Uint8 {
			ln = "(slen " + v.T + ")"
			c.fact(fmt.Sprintf("(forall ((i Int)) (! (=> (and (<= 0 i) (< i (slen %s))) (= (select %s i) (sat %s i))) :pattern ((select %s i))))", v.T, row, v.T, row))
		} else {
			ln = c.freshConst("nrunes", SInt)
			c.fact(fmt.Sprintf("(and (>= %s 0) (<= %s (slen %s)) (=> (> (slen %s) 0) (> %s 0)))", ln, ln, v.T, v.T, ln))
		}
		c.setH(hn, fmt.Sprintf("(store %s %s %s)", c.H(hn), r, row))
		c.define(x, fmt.Sprintf("(mk_slice %s 0 %s %s)", r, ln, ln), SSlice)
	case fs == SInt && ts == SFloat:
		c.declareFun("f_of_int", []Sort{SInt}, SFloat)
		c.define(x, "(f_of_int "+v.T+")", SFloat)
	case fs == SFloat && ts == SInt:
		c.declareFun("int_of_f", []Sort{SFloat}, SInt)
		d := c.define(x, "(int_of_f "+v.T+")", SInt)
		c.typeFacts(d.T, to)
	case fs == SFloat && ts == SFloat:
		c.bind(x, v)
	default:
		c.note(fmt.Sprintf("convert %s -> %s havoc", fs, ts))
		c.bind(x, c.havocVal("conv", to))
	}
}

func (c *FnCtx) makeInterface(x *ssa.MakeInterface) {
	v := c.v(x.X)
	t := x.X.Type()
	if ctor := c.M.anyCtor(t); ctor != "" {
		c.define(x, fmt.Sprintf("(%s %s)", ctor, v.T), SAny)
		return
	}
	s := c.M.SortOf(t)
	tid := c.M.TypeID(t)
	vt := v.T
	if vt == "" {
		vt = c.freshConst("opaque", s)
	}
	if s == SInt {
		c.define(x, fmt.Sprintf("(a_other %d %s)", tid, vt), SAny)
		return
	}
	bx, _ := boxFn(s)
	c.boxes[s] = true
	c.define(x, fmt.Sprintf("(a_other %d (%s %s))", tid, bx, vt), SAny)
}

// tagTest / payload for a concrete asserted type
func (c *FnCtx) anyTest(x string, t types.Type) (test string, payload string, ps Sort) {
	ps = c.M.SortOf(t)
	if ctor := c.M.anyCtor(t); ctor != "" {
		return fmt.Sprintf("((_ is %s) %s)", ctor, x), fmt.Sprintf("(%s %s)", anySel(ctor), x), ps
	}
	tid := c.M.TypeID(t)
	test = fmt.Sprintf("(and ((_ is a_other) %s) (= (a_ty %s) %d))", x, x, tid)
	if ps == SInt {
		return test, fmt.Sprintf("(a_pl %s)", x), ps
	}
	_, ub := boxFn(ps)
	c.boxes[ps] = true
	return test, fmt.Sprintf("(%s (a_pl %s))", ub, x), ps
}

func (c *FnCtx) typeAssert(x *ssa.TypeAssert) {
	v := c.v(x.X)
	at := x.AssertedType
	var test, payload string
	var ps Sort
	if _, isIface := types.Unalias(at).Underlying().(*types.Interface); isIface {
		ps = SAny
		payload = v.T
		if types.Unalias(at).Underlying().(*types.Interface).NumMethods() == 0 {
			test = fmt.Sprintf("(not (= %s a_nil))", v.T)
		} else {
			// dynamic method-set test: unknown, but nil never satisfies it
			u := c.freshConst("implements", SBool)
			c.fact(fmt.Sprintf("(=> %s (not (= %s a_nil)))", u, v.T))
			test = u
			c.note("type assertion to non-empty interface: method-set test abstracted")
		}
	} else {
		test, payload, ps = c.anyTest(v.T, at)
	}
	if x.CommaOk {
		okn := c.nameBool(c.newName("ok"), test)
		val := c.freshConst("ta", ps)
		c.fact(fmt.Sprintf("(= %s (ite %s %s %s))", val, okn, payload, c.M.Zero(ps)))
		c.valFacts(val, ps, at)
		c.bind(x, Val{S: "Tuple", Tup: []Val{{T: val, S: ps, GT: at}, {T: okn, S: SBool}}})
		return
	}
	c.oblige("typeassert", test, fmt.Sprintf("%s.(%s)", x.X.Name(), shortTypeName(at)), x.Pos())
	d := c.define(x, payload, ps)
	c.valFacts(d.T, ps, at)
}

func (c *FnCtx) index(x *ssa.Index) {
	a, i := c.v(x.X), c.v(x.Index)
	switch a.S {
	case SStr:
		c.oblige("index", fmt.Sprintf("(and (>= %s 0) (< %s (slen %s)))", i.T, i.T, a.T), x.X.Name()+"["+x.Index.Name()+"]", x.Pos())
		c.define(x, fmt.Sprintf("(sat %s %s)", a.T, i.T), SInt)
	default:
		if at, ok := types.Unalias(x.X.Type()).Underlying().(*types.Array); ok {
			c.oblige("index", fmt.Sprintf("(and (>= %s 0) (< %s %d))", i.T, i.T, at.Len()), x.X.Name()+"["+x.Index.Name()+"]", x.Pos())
			c.define(x, fmt.Sprintf("(select %s %s)", a.T, i.T), c.M.SortOf(at.Elem()))
			return
		}
		c.bind(x, c.havocVal("index", x.Type()))
	}
}

func (c *FnCtx) indexAddr(x *ssa.IndexAddr) {
	a, i := c.v(x.X), c.v(x.Index)
	detail := x.X.Name() + "[" + x.Index.Name() + "]"
	switch u := types.Unalias(x.X.Type()).Underlying().(type) {
	case *types.Slice:
		hn, es := c.M.SliceHeap(u.Elem())
		c.oblige("index", fmt.Sprintf("(and (>= %s 0) (< %s (s_len %s)))", i.T, i.T, a.T), detail, x.Pos())
		idx := fmt.Sprintf("(+ (s_off %s) %s)", a.T, i.T)
		c.bind(x, Val{S: SInt, GT: x.Type(), Place: &Place{Kind: PElem, Heap: hn, Ref: "(s_ref " + a.T + ")", Idx: idx, BaseSort: es, Sort: es, GoType: u.Elem()}})
	case *types.Pointer:
		at := types.Unalias(u.Elem()).Underlying().(*types.Array)
		es := c.M.SortOf(at.Elem())
		c.nilCheck(a, detail, x.Pos())
		c.oblige("index", fmt.Sprintf("(and (>= %s 0) (< %s %d))", i.T, i.T, at.Len()), detail, x.Pos())
		pl := c.placeOfPointer(a, x.X.Type())
		if pl.Kind != PElem || pl.Idx != "" {
			c.note("indexaddr through non-row array pointer")
			c.bind(x, c.havocVal("iaddr", x.Type()))
			return
		}
		c.bind(x, Val{S: SInt, GT: x.Type(), Place: &Place{Kind: PElem, Heap: pl.Heap, Ref: pl.Ref, Idx: i.T, BaseSort: es, Sort: es, GoType: at.Elem()}})
	default:
		c.bind(x, c.havocVal("iaddr", x.Type()))
	}
}

func (c *FnCtx) mapSortsOf(t types.Type) (Sort, Sort, *types.Map) {
	mt := types.Unalias(t).Underlying().(*types.Map)
	return c.M.SortOf(mt.Key()), c.M.SortOf(mt.Elem()), mt
}

func isTypeParam(t types.Type) bool {
	_, ok := types.Unalias(t).(*types.TypeParam)
	return ok
}

func (c *FnCtx) lookup(x *ssa.Lookup) {
	a, k := c.v(x.X), c.v(x.Index)
	if a.S == SStr {
		c.oblige("index", fmt.Sprintf("(and (>= %s 0) (< %s (slen %s)))", k.T, k.T, a.T), x.X.Name()+"["+x.Index.Name()+"]", x.Pos())
		c.define(x, fmt.Sprintf("(sat %s %s)", a.T, k.T), SInt)
		return
	}
	mhn, dhn, ks, vs, mt := c.M.MapHeaps(x.X.Type())
	if ks == SAny && !isTypeParam(mt.Key()) {
		// interface-typed key: hashing an uncomparable dynamic type panics
		c.oblige("mapkey", fmt.Sprintf("(not (or ((_ is a_map) %s) ((_ is a_mapaa) %s) ((_ is a_list) %s)))", k.T, k.T, k.T), x.Index.Name(), x.Pos())
	}
	m := c.H(mhn)
	d := c.H(dhn)
	ok := c.nameBool(c.newName("has"), fmt.Sprintf("(and (not (= %s 0)) (select (select %s %s) %s))", a.T, d, a.T, k.T))
	val := c.freshConst("mv", vs)
	c.fact(fmt.Sprintf("(= %s (ite %s (select (select %s %s) %s) %s))", val, ok, m, a.T, k.T, c.M.Zero(vs)))
	c.valFactsW(val, vs, mt.Elem(), c.loadWM(m))
	var cands []Cand
	if a.Table != nil {
		cands = c.tableFacts(a.Table, ok, k.T, val, false)
	}
	if x.CommaOk {
		c.bind(x, Val{S: "Tuple", Tup: []Val{{T: val, S: vs, GT: mt.Elem(), Cands: cands}, {T: ok, S: SBool}}})
		return
	}
	c.bind(x, Val{T: val, S: vs, GT: mt.Elem(), Cands: cands})
}

func (c *FnCtx) mapUpdate(x *ssa.MapUpdate) {
	m, k, v := c.v(x.Map), c.v(x.Key), c.v(x.Value)
	mn, dn, ks, vs, mt := c.M.MapHeaps(x.Map.Type())
	c.oblige("nilmap", fmt.Sprintf("(not (= %s 0))", m.T), x.Map.Name()+"["+x.Key.Name()+"]=", x.Pos())
	if ks == SAny && !isTypeParam(mt.Key()) {
		c.oblige("mapkey", fmt.Sprintf("(not (or ((_ is a_map) %s) ((_ is a_mapaa) %s) ((_ is a_list) %s)))", k.T, k.T, k.T), x.Key.Name(), x.Pos())
	}
	vt := v.T
	if vt == "" {
		vt = c.freshConst("opaque", vs)
	}
	if vs == SAny {
		c.wfSink(vt, x.Value.Name()+" stored in map", x.Pos())
	}
	c.checkWriteRow(mn, m.T, x.Pos())
	c.setH(mn, fmt.Sprintf("(store %s %s (store (select %s %s) %s %s))", c.H(mn), m.T, c.H(mn), m.T, k.T, vt))
	c.setH(dn, fmt.Sprintf("(store %s %s (store (select %s %s) %s true))", c.H(dn), m.T, c.H(dn), m.T, k.T))
}

func (c *FnCtx) slice(x *ssa.Slice) {
	a := c.v(x.X)
	lo, hi := "0", ""
	if x.Low != nil {
		lo = c.v(x.Low).T
	}
	detail := x.X.Name() + "[" + lo + ":"
	switch u := types.Unalias(x.X.Type()).Underlying().(type) {
	case *types.Basic: // string
		hi = "(slen " + a.T + ")"
		if x.High != nil {
			hi = c.v(x.High).T
			detail += x.High.Name()
		}
		c.oblige("slice", fmt.Sprintf("(and (<= 0 %s) (<= %s %s) (<= %s (slen %s)))", lo, lo, hi, hi, a.T), detail+"]", x.Pos())
		c.define(x, fmt.Sprintf("(ssub %s %s %s)", a.T, lo, hi), SStr)
	case *types.Slice:
		hi = "(s_len " + a.T + ")"
		if x.High != nil {
			hi = c.v(x.High).T
			detail += x.High.Name()
		}
		capT := "(s_cap " + a.T + ")"
		mx := capT
		if x.Max != nil {
			mx = c.v(x.Max).T
			c.oblige("slice", fmt.Sprintf("(and (<= 0 %s) (<= %s %s) (<= %s %s) (<= %s %s))", lo, lo, hi, hi, mx, mx, capT), detail+":max]", x.Pos())
		} else {
			c.oblige("slice", fmt.Sprintf("(and (<= 0 %s) (<= %s %s) (<= %s %s))", lo, lo, hi, hi, capT), detail+"]", x.Pos())
		}
		_ = u
		c.define(x, fmt.Sprintf("(mk_slice (s_ref %s) (+ (s_off %s) %s) (- %s %s) (- %s %s))", a.T, a.T, lo, hi, lo, mx, lo), SSlice)
	case *types.Pointer:
		at := types.Unalias(u.Elem()).Underlying().(*types.Array)
		n := fmt.Sprintf("%d", at.Len())
		hi = n
		if x.High != nil {
			hi = c.v(x.High).T
		}
		c.nilCheck(a, detail, x.Pos())
		c.oblige("slice", fmt.Sprintf("(and (<= 0 %s) (<= %s %s) (<= %s %s))", lo, lo, hi, hi, n), detail+"]", x.Pos())
		pl := c.placeOfPointer(a, x.X.Type())
		if pl.Kind != PElem {
			c.bind(x, c.havocVal("slice", x.Type()))
			return
		}
		c.define(x, fmt.Sprintf("(mk_slice %s %s (- %s %s) (- %s %s))", pl.Ref, lo, hi, lo, n, lo), SSlice)
	default:
		c.bind(x, c.havocVal("slice", x.Type()))
	}
}

func (c *FnCtx) next(x *ssa.Next) {
	itv := c.v(x.Iter)
	it := itv.Iter
	l := c.loops[x.Block().Index]
	if it == nil || l == nil {
		c.note("range iterator outside loop header")
		c.bind(x, c.havocVal("next", x.Type()))
		return
	}
	tup := x.Type().(*types.Tuple)
	ok := c.freshConst("nx_ok", SBool)
	if x.IsString {
		s := it.X.T
		pos := l.PosIn
		w := c.freshConst("w", SInt)
		r := c.freshConst("rune", SInt)
		c.fact(fmt.Sprintf("(= %s (< %s (slen %s)))", ok, pos, s))
		c.fact(fmt.Sprintf("(=> %s (and (>= %s 1) (<= %s 4) (<= (+ %s %s) (slen %s)) (>= %s 0) (<= %s 1114111) (=> (< (sat %s %s) 128) (and (= %s 1) (= %s (sat %s %s)))) (=> (< %s 128) (and (= %s 1) (= %s (sat %s %s))))))",
			ok, w, w, pos, w, s, r, r, s, pos, w, r, s, pos, r, w, r, s, pos))
		l.PosOut = c.freshConst("pos_out", SInt)
		c.fact(fmt.Sprintf("(= %s (ite %s (+ %s %s) %s))", l.PosOut, ok, pos, w, pos))
		c.bind(x, Val{S: "Tuple", Tup: []Val{{T: ok, S: SBool}, {T: pos, S: SInt, GT: types.Typ[types.Int]}, {T: r, S: SInt, GT: types.Typ[types.Rune]}}})
		return
	}
	mhn, dhn, ks, vs, mt := c.M.MapHeaps(it.GoType)
	m := it.X.T
	k := c.freshConst("nx_k", ks)
	mh := c.H(mhn)
	dh := c.H(dhn)
	seen := l.SeenIn
	c.fact(fmt.Sprintf("(=> %s (and (not (= %s 0)) (select (select %s %s) %s) (not (select %s %s))))", ok, m, dh, m, k, seen, k))
	c.fact(fmt.Sprintf("(=> (not %s) (forall ((qk %s)) (! (=> (and (not (= %s 0)) (select (select %s %s) qk)) (select %s qk)) :pattern ((select (select %s %s) qk)) :pattern ((select %s qk)))))", ok, ks, m, dh, m, seen, dh, m, seen))
	val := c.freshConst("nx_v", vs)
	c.fact(fmt.Sprintf("(=> %s (= %s (select (select %s %s) %s)))", ok, val, mh, m, k))
	c.valFactsW(val, vs, mt.Elem(), c.loadWM(mh))
	if ks == SAny {
		c.valFacts(k, ks, mt.Key())
	}
	so := c.freshConst("seen_out", Sort("(Array "+string(ks)+" Bool)"))
	c.fact(fmt.Sprintf("(= %s (ite %s (store %s %s true) %s))", so, ok, seen, k, seen))
	l.SeenOut = so
	_ = tup
	var cands []Cand
	if it.X.Table != nil {
		cands = c.tableFacts(it.X.Table, ok, k, val, true)
		if ti := it.X.Table; !ti.Open && ti.Frozen && !c.isInitLike() {
			// every extracted row key is in the (frozen) table's domain
			for _, r := range ti.Rows {
				c.fact(fmt.Sprintf("(and (not (= %s 0)) (select (select %s %s) %s))", m, dh, m, c.strLit(r.Key)))
			}
		}
	}
	c.bind(x, Val{S: "Tuple", Tup: []Val{{T: ok, S: SBool}, {T: k, S: ks, GT: mt.Key()}, {T: val, S: vs, GT: mt.Elem(), Cands: cands}}})
}

func (c *FnCtx) runDefers() {
	// apply the effects of every deferred call registered anywhere in the function (over-approximation)
	for _, b := range c.F.Blocks {
		for _, ins := range b.Instrs {
			if d, ok := ins.(*ssa.Defer); ok {
				c.callEffects(&d.Call, nil, d.Pos(), true)
			}
		}
	}
}

var _ = strings.Join

// wfSink: type invariant of any-trees — a map[string]any inside an interface value is never a
// nil map. Assumed wherever a value is read out of a tree or received as a parameter (anywf),
// obliged wherever a value is stored into a tree or passed to a function.
func (c *FnCtx) wfSink(term, what string, pos token.Pos) {
	c.oblige("nilbox", fmt.Sprintf("(=> ((_ is a_map) %s) (not (= (a_m %s) 0)))", term, term), what, pos)
}

// oldRowFacts: a reference read from a row that already existed when the heap class was last havocked by a
// call that writes only fresh rows is not younger than that call (heap well-formedness: the contents of a
// heap version never mention objects allocated after the version was made). Walks up to 4 such havocs.
func (c *FnCtx) oldRowFacts(pl *Place, v Val, gt types.Type) {
	if pl.Kind != PStructPtr || pl.Ref == "" || len(pl.Path) != 1 {
		return
	}
	var ref string
	switch types.Unalias(gt).Underlying().(type) {
	case *types.Pointer, *types.Map, *types.Chan:
		if v.S != SInt {
			return
		}
		ref = v.T
	case *types.Slice:
		if v.S != SSlice {
			return
		}
		ref = "(s_ref " + v.T + ")"
	default:
		return
	}
	si := c.M.Struct(pl.BaseSort)
	if si == nil {
		return
	}
	hn := "HF|" + si.Name + "|" + fmtPath(pl.Path)
	cur, ok := c.st[hn]
	if !ok {
		return
	}
	if w, ok := c.hwm[cur]; ok {
		c.fact(fmt.Sprintf("(<= %s %s)", ref, w))
	}
	for d := 0; d < 4; d++ {
		par, ok := c.hparent[cur]
		if !ok {
			return
		}
		c.fact(fmt.Sprintf("(=> (<= %s %s) (<= %s %s))", pl.Ref, par.wm, ref, par.wm))
		cur = par.old
	}
}
