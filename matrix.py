#!/usr/bin/env python3
"""matrix.py — markdown table of the seeded-change selftest: one row per seed (from selftest_results.jsonl
and the seeds' meta.json)."""
import json, os
rows = [json.loads(l) for l in open('/verif/selftest_results.jsonl')]
print("| seed | change (abridged) | caught | first failing obligations |")
print("|---|---|---|---|")
n = 0
for r in rows:
    meta = json.load(open('/verif/seeded/%s/meta.json' % r['seed']))
    summ = meta.get('summary', '').replace('|', '/').replace('\n', ' ')
    summ = summ[:150] + ('…' if len(summ) > 150 else '')
    caught = r.get('applied') and r.get('violations', 0) > 0
    n += 1 if caught else 0
    obl = '; '.join(x for x in r.get('obligations', '').split(';') if x)[:200]
    print("| %s | %s | %s | %s |" % (r['seed'], summ, 'yes' if caught else ('NO' if r.get('applied') else 'patch does not apply'), obl.replace('|', '/') or '—'))
print("\n%d of %d seeded changes are reported as violations." % (n, len(rows)))
