#!/usr/bin/env python3
"""convert_excepts.py <sweep -v -with-excepted output> [--apply]: rewrite `except kind#ordinal` items into the
stable form `kind@<hash of the source line>#k` (same obligation, named so that an insertion elsewhere in the
function does not renumber it). frame items are left alone."""
import re, sys, glob
out = open(sys.argv[1]).read().splitlines(); apply = '--apply' in sys.argv
obl = []
for l in out:
    st = re.search(r'~(\S+)\s*$', l); st = st.group(1) if st else ''
    m = re.match(r'\s+ok\s+(\S+)\s', l) or re.match(r'\s+(?:failed|excepted|unknown:\S+)\s+(\S+)', l)
    if m: obl.append((m.group(1), st))
conv = keep = 0
for f in sorted(glob.glob('/repo/*/verif_contracts*.go')):
    pkg = f.split('/')[2]; lines = open(f).read().split('\n'); cur = None; ch = False
    for i, l in enumerate(lines):
        m = re.match(r'//@\s+func\s+(\S.*)$', l)
        if m: cur = pkg + '.' + m.group(1).strip(); continue
        m = re.match(r'(//@\s+except\s+)([^:]+)(:.*)$', l)
        if not (m and cur): continue
        items = [x.strip() for x in m.group(2).split(',') if x.strip()]; new = []
        for it in items:
            if it.startswith('frame[') or '@' in it: new.append(it); continue
            pre = cur + '/' + it
            sts = sorted(set(st for n, st in obl if (n == pre or n.startswith(pre + '[')) and st))
            if sts: new.extend(sts); conv += 1
            else: new.append(it); keep += 1
        if new != items: lines[i] = m.group(1) + ', '.join(new) + ' ' + m.group(3); ch = True
    if ch and apply: open(f, 'w').write('\n'.join(lines))
print("converted", conv, "kept", keep)
