#!/bin/bash
# selftest.sh [seed-dir ...]: must-fail corpus. Applies each seeded property-breaking change of
# /verif/seeded/<id>-m<k>/patch.diff to a scratch worktree of /repo (under $TMPDIR, removed afterwards),
# runs the check of that property there and records which obligations fail.
# Output: /verif/selftest_results.jsonl (one line per seed).
export GOFLAGS=-mod=mod GOPROXY=off GOSUMDB=off GOTOOLCHAIN=local
cd /verif
SEEDS=("$@"); [ ${#SEEDS[@]} -eq 0 ] && SEEDS=(/verif/seeded/C*-m*)
OUT=/verif/selftest_results.jsonl; : > "$OUT.tmp"
for S in "${SEEDS[@]}"; do
  N=$(basename "$S"); P=${N%%-*}
  WT=$(mktemp -d "${TMPDIR:-/tmp}/selftest_${N}_XXXX"); rmdir "$WT"
  git -C /repo worktree add -q --detach "$WT" HEAD || continue
  VD=$(mktemp -d "${TMPDIR:-/tmp}/selftest_verif_XXXX"); cp /verif/known_findings.txt "$VD/"
  PF="$S/patch.diff"; [ -f "$S/patch_on_fixed_tree.diff" ] && PF="$S/patch_on_fixed_tree.diff"
  if git -C "$WT" apply "$PF" 2>/dev/null; then
    RES=$(/verif/bin/govc check --property "$P" --tier quick --repo "$WT" --verif "$VD" 2>&1)
    RC=$?
    V=$(echo "$RES" | grep -c '^VIOLATION')
    OBL=$(echo "$RES" | grep '^  obligation' | sed 's/^  obligation //' | cut -d' ' -f1 | head -5 | tr '\n' ';')
    echo "{\"seed\":\"$N\",\"property\":\"$P\",\"applied\":true,\"exit\":$RC,\"violations\":$V,\"obligations\":\"${OBL//\"/}\"}" >> "$OUT.tmp"
    echo "$N: exit=$RC violations=$V $OBL"
  else
    echo "{\"seed\":\"$N\",\"property\":\"$P\",\"applied\":false}" >> "$OUT.tmp"
    echo "$N: patch does not apply to the current tree"
  fi
  git -C /repo worktree remove --force "$WT" 2>/dev/null; rm -rf "$WT" "$VD"
done
mv "$OUT.tmp" "$OUT"
