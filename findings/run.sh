#!/bin/bash
# run.sh <test-file> <commit-or-WORKTREE>: run a demonstration test against a scratch worktree of /repo at <commit>
export GOFLAGS=-mod=mod GOPROXY=off GOSUMDB=off GOTOOLCHAIN=local
F="$1"; REV="${2:-HEAD}"
WT=$(mktemp -d /tmp/finding_XXXX); rmdir "$WT"
git -C /repo worktree add -q --detach "$WT" "$REV" || exit 2
trap 'git -C /repo worktree remove --force "$WT" 2>/dev/null; rm -rf "$WT"' EXIT
DIR=$(head -1 "$F" | sed -n 's#^// *dir: *\([A-Za-z0-9_/.-]*\).*#\1#p')
cp "$F" "$WT/$DIR/zz_finding_demo_test.go"
cd "$WT" && go test -vet=off -count=1 -run "$(grep -o 'func Test[A-Za-z0-9_]*' $F | head -1 | sed 's/func //')" ./$DIR/ 2>&1 | tail -25
