// dir: loader
// Demonstration for the unsigned-integer cast defect (C08): a value supplied through a variable must
// load like the literal.
package loader_test

import (
	"context"
	"testing"

	"github.com/compose-spec/compose-go/v2/loader"
	"github.com/compose-spec/compose-go/v2/types"
)

func TestUnsignedFieldsThroughVariables(t *testing.T) {
	lit := "services: {a: {image: x, blkio_config: {weight: 300, weight_device: [{path: /dev/sda, weight: 400}]}, volumes: [{type: tmpfs, target: /t, tmpfs: {mode: 0755}}]}}"
	vars := "services: {a: {image: x, blkio_config: {weight: \"${W}\", weight_device: [{path: /dev/sda, weight: \"${WD}\"}]}, volumes: [{type: tmpfs, target: /t, tmpfs: {mode: \"${M}\"}}]}}"
	load := func(c string) (*types.Project, error) {
		return loader.LoadWithContext(context.Background(), types.ConfigDetails{WorkingDir: "/tmp/x",
			ConfigFiles: []types.ConfigFile{{Filename: "compose.yaml", Content: []byte(c)}}, Environment: map[string]string{"W": "300", "WD": "400", "M": "493"}},
			func(o *loader.Options) { o.SetProjectName("demo", true); o.SkipResolveEnvironment = true })
	}
	p1, err := load(lit)
	if err != nil {
		t.Fatal(err)
	}
	p2, err := load(vars)
	if err != nil {
		t.Fatalf("values supplied through variables fail to load: %v", err)
	}
	if p1.Services["a"].BlkioConfig.Weight != p2.Services["a"].BlkioConfig.Weight || p1.Services["a"].BlkioConfig.WeightDevice[0].Weight != p2.Services["a"].BlkioConfig.WeightDevice[0].Weight {
		t.Fatal("different typed values")
	}
}
